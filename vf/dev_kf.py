"""DEV TOOL (never run by a check): fill the `inputs` list of a known-findings entry from the
violation records of the last run of a property.
usage: python -m vf.dev_kf PROP KF-ID REGEX [--div CLASS[,CLASS]] [--show]"""
import glob
import json
import os
import re
import sys
import collections

from . import common


def main(argv):
    prop, kfid, rx = argv[1], argv[2], re.compile(argv[3])
    divs = None
    if "--div" in argv:
        divs = set(argv[argv.index("--div") + 1].split(","))
    recs = [json.load(open(f)) for f in sorted(glob.glob(os.path.join(common.REPLAY_DIR, prop + "-*.json")))]
    hit = collections.OrderedDict()
    divseen = collections.Counter()
    for r in recs:
        d = r.get("descriptor", "")
        if not rx.search(d):
            continue
        if divs and r.get("divergence") not in divs:
            continue
        hit[d] = 1
        divseen[r.get("divergence")] += 1
    print("%d records, %d matching descriptors, divergences %s" % (len(recs), len(hit), dict(divseen)))
    if "--show" in argv:
        for d in hit:
            print("  ", d)
        return
    data = json.load(open(common.KNOWN_FILE))
    for e in data["findings"]:
        if e["id"] == kfid:
            if e.get("inputs_file"):
                fp = os.path.join(common.VERIF, e["inputs_file"])
                old = set()
                if os.path.exists(fp) and "--replace" not in argv:
                    old = set(l.rstrip("\n") for l in open(fp) if l.strip())
                os.makedirs(os.path.dirname(fp), exist_ok=True)
                with open(fp, "w") as f:
                    for d in sorted(old | set(hit)):
                        f.write(d + "\n")
                e.setdefault("inputs", [])
                new_n = len(old | set(hit))
            else:
                old = set(e.get("inputs", []))
                e["inputs"] = sorted(old | set(hit))
                new_n = len(e["inputs"])
            dv = set(e.get("divergence", [])) | set(divseen)
            e["divergence"] = sorted(dv)
            print("entry %s: %d -> %d inputs" % (kfid, len(old), new_n))
            break
    else:
        raise SystemExit("no entry %s in known_findings.json (create it by hand first)" % kfid)
    with open(common.KNOWN_FILE, "w") as f:
        json.dump(data, f, indent=1)


if __name__ == "__main__":
    main(sys.argv)
