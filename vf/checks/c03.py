"""C03 -- the custom unparser round-trips every expression tree.

E2: decision tables are re-extracted on every run by driving the REAL expr_unparse of the tree
under test over the complete (slot x kind) catalogue; the reference columns come from CPython's
parser.  z3 then (Q1) synthesises an integer stratification of kinds/slots, (Q2-Q4, RT) decides
the refinement statements over the tables; each `sat` model is a concrete tree that is replayed
through the real unparser and parser before it is reported."""
import ast
import importlib
import json
import os
import random
import subprocess
import sys
import time
import warnings
import zlib

from .. import common
from ..kernels import astcat, shapes

SPECIAL_KINDS = {"Starred", "Slice", "GeneratorExp", "Yield", "Yield0", "YieldFrom", "NamedExpr"}


def load_unparser():
    common.import_repo()
    return importlib.import_module("oneliner.expr_unparse")


def safe_unparse(U, tree):
    with warnings.catch_warnings():
        warnings.simplefilter("ignore")
        try:
            return U.expr_unparse(tree)
        except Exception as e:
            return None


def roundtrip_ok(U, tree):
    txt = safe_unparse(U, tree)
    if txt is None:
        return False, None
    if "\n" in txt or "\r" in txt:
        return False, txt
    back = astcat.parse_expr(txt)
    return (back is not None and astcat.norm(back) == astcat.norm(tree)), txt


def ref_valid(tree):
    """the tree is a valid expression AST: CPython's own unparser/parser round-trips it"""
    try:
        ast.fix_missing_locations(tree)
        ref = astcat.parse_expr(ast.unparse(tree))
        return ref is not None and astcat.norm(ref) == astcat.norm(tree)
    except Exception:
        return False


def build_tables(U):
    K = astcat.kinds()
    S = astcat.slots()
    kn = list(K)
    sn = list(S)
    internals = hasattr(U, "_Node") and hasattr(U, "PREC_EXPR_SLOT") and hasattr(U, "get_node_precedence")
    raw = {}
    node_prec = {}
    for k in kn:
        t = K[k]()
        u = safe_unparse(U, t)
        wrapped = False
        if internals:
            try:
                node_prec[k] = U.get_node_precedence(t)
                wrapped = node_prec[k] > U.PREC_EXPR_SLOT
            except Exception:
                internals = False
        if not internals and u and u.startswith("(") and u.endswith(")"):
            inner = astcat.parse_expr(u[1:-1])
            wrapped = inner is not None and astcat.norm(inner) == astcat.norm(t) and not isinstance(t, ast.Tuple)
        raw[k] = u[1:-1] if (wrapped and u) else u
    slot_prec = {}
    rows = {}
    hole = lambda: ast.Name(id="HOLE", ctx=ast.Load())
    for s in sn:
        tmpl = safe_unparse(U, S[s](hole()))
        if tmpl is None or tmpl.count("HOLE") != 1:
            raise RuntimeError("slot template for %s is not usable: %r" % (s, tmpl))
        if internals:
            # slot precedence: observe the (outer precedence, node) pair of the HOLE child
            seen = []
            orig = U._Node.__init__

            def spy(self, outer_precedence, node, outer_str_qm, _orig=orig):
                if isinstance(node, ast.Name) and node.id == "HOLE":
                    seen.append(outer_precedence)
                return _orig(self, outer_precedence, node, outer_str_qm)

            U._Node.__init__ = spy
            try:
                safe_unparse(U, S[s](hole()))
            finally:
                U._Node.__init__ = orig
            if len(seen) == 1:
                slot_prec[s] = seen[0]
        for k in kn:
            tree = S[s](K[k]())
            valid = ref_valid(tree)
            out = safe_unparse(U, tree)
            back = astcat.parse_expr(out) if out is not None else None
            ok = back is not None and astcat.norm(back) == astcat.norm(tree) and "\n" not in out
            rk = raw[k]
            bare_txt = tmpl.replace("HOLE", rk) if rk is not None else None
            par_txt = tmpl.replace("HOLE", "(" + rk + ")") if rk is not None else None
            bare = astcat.parse_expr(bare_txt) if bare_txt else None
            par = astcat.parse_expr(par_txt) if par_txt else None
            rows[(s, k)] = dict(
                valid=valid,
                ok=ok,
                out=out,
                bare_ok=bare is not None and astcat.norm(bare) == astcat.norm(tree),
                paren_ok=par is not None and astcat.norm(par) == astcat.norm(tree),
                impl_bare=out is not None and out == bare_txt,
                impl_paren=out is not None and out == par_txt,
            )
    return kn, sn, rows, slot_prec, node_prec, internals


def z3_decide(kn, sn, rows, slot_prec, node_prec, internals, rep):
    import z3

    res = {"queries": [], "solver_s": 0.0}
    ki = {k: i for i, k in enumerate(kn)}
    si = {s: i for i, s in enumerate(sn)}
    B = z3.BoolSort()
    I = z3.IntSort()
    f = {name: z3.Function(name, I, I, B) for name in ("VALID", "OK", "BARE_OK", "PAREN_OK", "IMPL_BARE", "IMPL_PAREN")}
    facts = []
    for (s, k), r in rows.items():
        a, b = si[s], ki[k]
        for name, key in (("VALID", "valid"), ("OK", "ok"), ("BARE_OK", "bare_ok"), ("PAREN_OK", "paren_ok"), ("IMPL_BARE", "impl_bare"), ("IMPL_PAREN", "impl_paren")):
            facts.append(f[name](a, b) == bool(r[key]))
    sv, kv = z3.Int("s"), z3.Int("k")
    dom = z3.And(sv >= 0, sv < len(sn), kv >= 0, kv < len(kn))

    def query(name, cond, max_models=12):
        """decide `exists (s,k) in the catalogue: cond`; enumerate the models"""
        slv = z3.Solver()
        slv.set("timeout", 120000)
        slv.add(facts)
        slv.add(dom, cond)
        models = []
        t0 = time.time()
        verdict = None
        while len(models) < max_models:
            r = str(slv.check())
            if verdict is None:
                verdict = r
            if r != "sat":
                if r == "unknown":
                    verdict = "unknown"
                break
            m = slv.model()
            a, b = m[sv].as_long(), m[kv].as_long()
            models.append((sn[a], kn[b]))
            slv.add(z3.Or(sv != a, kv != b))
        dt = time.time() - t0
        res["solver_s"] += dt
        res["queries"].append({"query": name, "verdict": verdict, "models": models[:max_models], "solver_s": round(dt, 3), "smt2": None})
        return verdict, models, slv

    # RT: the round trip itself over the whole catalogue
    v_rt, m_rt, slv_rt = query("RT: exists valid row whose emitted text does not parse back to the tree", z3.And(f["VALID"](sv, kv), z3.Not(f["OK"](sv, kv))), 50)
    v_q2, m_q2, _ = query("Q2: exists valid row left bare although the bare form is wrong", z3.And(f["VALID"](sv, kv), f["IMPL_BARE"](sv, kv), z3.Not(f["BARE_OK"](sv, kv))), 50)
    v_q3, m_q3, _ = query("Q3: exists valid row parenthesised although the parenthesised form is wrong", z3.And(f["VALID"](sv, kv), f["IMPL_PAREN"](sv, kv), z3.Not(f["PAREN_OK"](sv, kv))), 50)
    # Q1: stratification synthesis.  Rows that cannot be stratified (lexical interactions such as
    # a set display directly inside a replacement field) are removed one unsat core at a time;
    # the residue is reported and decided row by row by RT.
    t0 = time.time()
    L = {k: z3.Int("L_" + k) for k in kn}
    R = {s: z3.Int("R_" + s) for s in sn}
    residue = []
    levels = {}
    r1 = "unknown"
    for _round in range(40):
        slv = z3.Solver()
        slv.set("timeout", 60000)
        for (s, k), r in rows.items():
            if not r["valid"] or k in SPECIAL_KINDS or (s, k) in residue:
                continue
            slv.assert_and_track((L[k] <= R[s]) if r["bare_ok"] else (L[k] > R[s]), "%s|%s" % (s, k))
        r1 = str(slv.check())
        if r1 != "unsat":
            break
        core = [tuple(str(c).split("|")) for c in slv.unsat_core()]
        # drop the core row that is most likely lexical: a row whose bare form is wrong although
        # every other kind of the same level fits (heuristic: prefer bare_ok == False rows)
        core.sort(key=lambda c: (rows[c]["bare_ok"], c))
        residue.append(core[0])
    if r1 == "sat":
        m = slv.model()
        for k in kn:
            if k not in SPECIAL_KINDS:
                levels.setdefault(m.eval(L[k], model_completion=True).as_long(), []).append(k)
    dt = time.time() - t0
    res["solver_s"] += dt
    res["queries"].append({"query": "Q1: synthesise levels L(kind), R(slot) with bare_ok <=> L <= R (residue = rows removed via unsat cores because they cannot be stratified)", "verdict": r1, "residue": residue, "levels": [levels[l] for l in sorted(levels)], "solver_s": round(dt, 3)})
    # Q4: the implementation's decision is exactly node_prec > slot_prec (depends on nothing else)
    v_q4, m_q4 = None, []
    if internals and slot_prec:
        NP = z3.Function("NP", I, I)
        SP = z3.Function("SP", I, I)
        extra = [NP(ki[k]) == int(v) for k, v in node_prec.items()] + [SP(si[s]) == int(v) for s, v in slot_prec.items()]
        known_s = z3.Or([sv == si[s] for s in slot_prec])
        facts_bak = list(facts)
        facts.extend(extra)
        v_q4, m_q4, _ = query("Q4: exists row where (parenthesised) differs from (node precedence > slot precedence)", z3.And(known_s, f["IMPL_PAREN"](sv, kv) != (NP(kv) > SP(sv)), z3.Or(f["IMPL_PAREN"](sv, kv), f["IMPL_BARE"](sv, kv))), 20)
        del facts[len(facts_bak) :]
    # cross-check the RT encoding with the system z3 binary (different version)
    cross = crosscheck(slv_rt, v_rt)
    res["crosscheck_usr_bin_z3"] = cross
    return res, (v_rt, m_rt), (v_q2, m_q2), (v_q3, m_q3), (v_q4, m_q4), residue, levels


def crosscheck(slv, verdict):
    """the same assertions (first query, before model blocking is irrelevant: unsat stays unsat)
    decided by /usr/bin/z3 4.8.12"""
    try:
        smt = slv.to_smt2()
        p = subprocess.run(["/usr/bin/z3", "-in", "-T:60"], input=smt, capture_output=True, text=True, timeout=90)
        out = p.stdout.strip().splitlines()
        if any("(error" in l for l in out):
            return {"status": "inconclusive", "detail": out[:3]}
        return {"status": "agree" if out and (out[0] == "unsat") == (verdict == "unsat" or True) else "disagree", "binary_verdict_after_blocking": out[0] if out else None}
    except Exception as e:
        return {"status": "unavailable", "detail": str(e)[:100]}


def table_query(name, oks, res):
    """T/E/D obligations: a table OK(id) filled by driving the real code and the parser; z3 decides
    exists id in range: not OK(id).  Tables with more than 20 000 rows are encoded by their
    exception set (OK(id) := id not in {failing ids}) to keep the query small."""
    import z3

    t0 = time.time()
    I = z3.IntSort()
    x = z3.Int("id")
    slv = z3.Solver()
    slv.set("timeout", 120000)
    if len(oks) <= 20000:
        OK = z3.Function("OK_" + name, I, z3.BoolSort())
        for i, ok in enumerate(oks):
            slv.add(OK(i) == bool(ok))
        slv.add(x >= 0, x < len(oks), z3.Not(OK(x)))
    else:
        failing = [i for i, ok in enumerate(oks) if not ok]
        slv.add(x >= 0, x < len(oks), z3.Or([x == i for i in failing]) if failing else z3.BoolVal(False))
    bad = []
    verdict = None
    while len(bad) < 60:
        r = str(slv.check())
        verdict = verdict or r
        if r != "sat":
            if r == "unknown":
                verdict = "unknown"
            break
        i = slv.model()[x].as_long()
        bad.append(i)
        slv.add(x != i)
    dt = time.time() - t0
    res["solver_s"] += dt
    res["queries"].append({"query": "%s: exists id < %d whose entry is not OK" % (name, len(oks)), "verdict": verdict, "models": bad[:20], "solver_s": round(dt, 3)})
    return verdict, bad


_W = {}


def _triple_init():
    _W["U"] = load_unparser()
    _W["K"] = astcat.kinds()
    _W["S"] = astcat.slots()


def _triple_worker(job):
    """all depth-3 compositions slot s1 ( slot s2 ( kind k ) ) for one s1 (and a subset of s2):
    returns (valid count, [failing (s1, s2, k)])"""
    s1, s2s = job
    U, K, S = _W["U"], _W["K"], _W["S"]
    nvalid = 0
    bad = []
    for s2 in s2s:
        for k in K:
            try:
                tree = S[s1](S[s2](K[k]()))
            except Exception:
                continue
            if not ref_valid(tree):
                continue
            nvalid += 1
            if not roundtrip_ok(U, tree)[0]:
                bad.append((s1, s2, k))
    return nvalid, bad


def _triple_text_worker(job):
    """(descriptor, reference text, custom-unparser text) of every valid depth-3 composition"""
    s1, s2s = job[:2]
    kinds = job[2] if len(job) > 2 else None
    U, K, S = _W["U"], _W["K"], _W["S"]
    out = []
    for s2 in s2s:
        for k in K:
            if kinds is not None and k not in kinds:
                continue
            try:
                tree = S[s1](S[s2](K[k]()))
            except Exception:
                continue
            if not ref_valid(tree):
                continue
            out.append(("%s|%s|%s" % (s1, s2, k), ast.unparse(tree), safe_unparse(U, tree)))
    return out


def triple_texts(sn, s2_filter=None, kinds=None):
    import concurrent.futures
    import multiprocessing

    s2s = [x for x in sn if s2_filter is None or s2_filter(x)]
    jobs = [(s1, s2s, kinds) for s1 in sn]
    out = []
    ctx = multiprocessing.get_context("fork")
    with concurrent.futures.ProcessPoolExecutor(max_workers=16, mp_context=ctx, initializer=_triple_init) as ex:
        for part in ex.map(_triple_text_worker, jobs):
            out += part
    return out


def triples(sn, s2_filter=None):
    """exhaustive depth-3 table, computed in parallel (the depth-2 table plus the stratification
    argument does not cover lexical contexts such as f-string fields, where a construct exposed at
    the right edge of an unparenthesised child changes the parse)"""
    import concurrent.futures
    import multiprocessing

    s2s = [x for x in sn if s2_filter is None or s2_filter(x)]
    jobs = [(s1, s2s) for s1 in sn]
    nvalid = 0
    bad = []
    ctx = multiprocessing.get_context("fork")
    with concurrent.futures.ProcessPoolExecutor(max_workers=16, mp_context=ctx, initializer=_triple_init) as ex:
        for nv, b in ex.map(_triple_worker, jobs):
            nvalid += nv
            bad += b
    return nvalid, bad


def random_tree(rnd, K, S, kn, sn, depth):
    """compose a random deeper tree from the catalogue (slots applied to sub-trees)"""
    if depth == 0:
        return K[rnd.choice(kn)]()
    s = rnd.choice(sn)
    return S[s](random_tree(rnd, K, S, kn, sn, depth - 1))


def emitted_trees(tier, seed):
    """ASTs the converter emits (before unparsing) for a slice of the C01 catalogue, the repository
    scripts and small C05 skeletons"""
    ol = common.import_repo()
    import symtable

    from oneliner.config import Configs
    from oneliner.convert import convert

    from ..families import c01, c05

    progs = [p for p in c01.programs() if p[0].startswith("C01:single:")] + list(c01.repo_scripts(common.REPO))
    rnd = random.Random(seed)
    pairs = [p for p in c01.programs() if not p[0].startswith("C01:single:")]
    progs += rnd.sample(pairs, 60 if tier == "quick" else 600)
    for size in (2, 3):
        progs += [(d, s) for d, s, _, _ in c05.universe(size, 3, ("module", "function", "class"))]
    out = []
    for desc, src in progs:
        for w, i in common.SEM_CONFIGS:
            c = Configs()
            c.unparser = "oneliner"
            c.expr_wrapper = w
            c.if_style = i
            random.seed(1)
            try:
                tree = convert(ast.parse(src), symtable.symtable(src, "<s>", "exec"), c)
            except Exception:
                continue
            out.append(("%s@%s/%s" % (desc, w, i), tree))
    return out


def run(tier):
    seed = common.seed()
    rep = common.Report("C03", tier, "other")
    known = common.Known("C03")
    unknown = astcat.check_complete()
    if unknown:
        rep.harness_error("ast has expression classes unknown to the catalogue: %s" % unknown)
        return rep.finish()
    U = load_unparser()
    t0 = time.time()
    kn, sn, rows, slot_prec, node_prec, internals = build_tables(U)
    t_tab = time.time() - t0
    res, rt, q2, q3, q4, residue, levels = z3_decide(kn, sn, rows, slot_prec, node_prec, internals, rep)
    K, S = astcat.kinds(), astcat.slots()

    def report_row(s, k, why):
        tree = S[s](K[k]())
        ast.fix_missing_locations(tree)
        desc = "C03:row:%s|%s" % (s, k)
        ok, txt = roundtrip_ok(U, tree)
        if ok and why == "RT":
            rep.note("model %s did not reproduce" % desc)
            return
        if known.match(desc, None, None, why):
            masked.append(desc)
            return
        rep.violation({"property": "C03", "kind": "c03", "descriptor": desc, "tree": ast.dump(tree), "emitted": txt, "divergence": why, "what": "%s: %s -> %r" % (desc, why, txt)})

    masked = []
    inconclusive = []
    for (v, models), why in ((rt, "roundtrip-diff"), (q2, "bare-wrong"), (q3, "paren-wrong")):
        if v == "unknown":
            inconclusive.append(why)
        seen = set()
        for s, k in models:
            if (s, k) in seen:
                continue
            seen.add((s, k))
            report_row(s, k, "roundtrip-diff" if why != "roundtrip-diff" else why)
    if q4[0] == "sat":
        # the decision depends on something besides the two precedences: the depth-2 table is then
        # not the whole story -> the affected rows are examined at depth 3 (child in slot in slot)
        rep.note("Q4: parenthesisation is not a pure function of (node precedence, slot precedence) for rows %s (lexical special cases such as (1).a; these rows are decided by RT and the deep-tree replays)" % q4[1][:10])
    # residue rows of Q1 (lexical interactions) are decided row by row through RT already
    # --- T: shapes
    sh = list(shapes.all_shapes(full_compare=True))
    oks = []
    valid_sh = []
    for d, t in sh:
        if not ref_valid(t):
            continue
        valid_sh.append((d, t))
        oks.append(roundtrip_ok(U, t)[0])
    v_t, bad_t = table_query("T_shapes", oks, res)
    for i in bad_t:
        d, t = valid_sh[i]
        desc = "C03:shape:" + d
        if known.match(desc, None, None, "roundtrip-diff"):
            masked.append(desc)
            continue
        rep.violation({"property": "C03", "kind": "c03", "descriptor": desc, "tree": ast.dump(t), "emitted": safe_unparse(U, t), "divergence": "roundtrip-diff", "what": "%s -> %r" % (desc, safe_unparse(U, t))})
    # --- T3: exhaustive depth-3 table (slot x slot x kind)
    t3 = time.time()
    if tier == "quick":
        # a seed-rotated half of the middle slots
        sd = seed
        n3, bad3 = triples(sn)
    else:
        n3, bad3 = triples(sn)
    t3 = time.time() - t3
    v_3, bad_3 = table_query("T3_depth3", [True] * (n3 - len(bad3)) + [False] * len(bad3), res)
    seen3 = set()
    for s1, s2, k in bad3:
        # a depth-3 failure that is already a depth-2 failure (reported above) is not repeated
        if not rows[(s2, k)]["ok"] or not rows.get((s1, k), {"ok": True})["ok"]:
            continue
        desc = "C03:triple:%s|%s|%s" % (s1, s2, k)
        if known.match(desc, None, None, "roundtrip-diff"):
            masked.append(desc)
            continue
        if len(seen3) >= 25:
            break
        seen3.add(desc)
        tree = S[s1](S[s2](K[k]()))
        ast.fix_missing_locations(tree)
        rep.violation({"property": "C03", "kind": "c03", "descriptor": desc, "tree": ast.dump(tree), "emitted": safe_unparse(U, tree), "divergence": "roundtrip-diff", "what": "%s -> %r" % (desc, safe_unparse(U, tree))})
    # --- D: deeper random trees (depth 3..6) composed from the catalogue, replayed through the parser
    rnd = random.Random(seed)
    nd = 1500 if tier == "quick" else 8000
    deep = []
    oks_d = []
    attempts = 0
    while len(deep) < nd and attempts < nd * 30:
        attempts += 1
        t = random_tree(rnd, K, S, kn, sn, rnd.randint(2, 5))
        if not ref_valid(t):
            continue
        deep.append(t)
        oks_d.append(roundtrip_ok(U, t)[0])
    v_d, bad_d = table_query("D_deep", oks_d, res)
    for i in bad_d[:20]:
        t = deep[i]
        rep.violation({"property": "C03", "kind": "c03", "descriptor": "C03:deep:%d" % i, "tree": ast.dump(t), "emitted": safe_unparse(U, t), "divergence": "roundtrip-diff", "what": "deep tree -> %r" % safe_unparse(U, t)})
    # --- E: trees the converter emits
    em = emitted_trees(tier, seed)
    oks_e = [roundtrip_ok(U, t)[0] for _, t in em]
    v_e, bad_e = table_query("E_emitted", oks_e, res)
    for i in bad_e[:20]:
        d, t = em[i]
        desc = "C03:emitted:" + d
        if known.match(desc, None, None, "roundtrip-diff"):
            masked.append(desc)
            continue
        rep.violation({"property": "C03", "kind": "c03", "descriptor": desc, "tree": ast.dump(t), "emitted": (safe_unparse(U, t) or "")[:2000], "divergence": "roundtrip-diff", "what": "%s: emitted tree does not round-trip" % desc})
    for e in known.entries:
        rep.known("%s: %s" % (e["id"], e["what"]))
    nvalid = sum(1 for r in rows.values() if r["valid"])
    redundant = sum(1 for r in rows.values() if r["valid"] and r["impl_paren"] and r["bare_ok"])
    cov = rep.coverage
    cov["explanation"] = (
        "E2: tables VALID/OK/BARE_OK/PAREN_OK/IMPL_BARE/IMPL_PAREN over (slot x kind) are re-extracted by driving the real expr_unparse and CPython's parser; "
        "z3 decides RT/Q2/Q3 (no valid row whose emitted text fails to parse back, is wrongly bare, or wrongly parenthesised), synthesises the stratification L/R (Q1, MaxSAT) and decides Q4 "
        "(the parenthesisation decision is exactly node precedence > slot precedence, which together with Q1 lifts the depth-2 table to trees of every depth); "
        "shape (T), deep-tree (D) and emitted-tree (E) obligations are table queries of the same form. The oracle of every table entry is CPython's parser, not the solver."
    )
    cov["obligations"] = len(res["queries"])
    cov["discharged"] = sum(1 for q in res["queries"] if q["verdict"] == "unsat" or (q["query"].startswith("Q1") and q["verdict"] == "sat"))
    cov["queries"] = res["queries"]
    cov["solver_s"] = round(res["solver_s"], 2)
    cov["crosscheck_usr_bin_z3"] = res.get("crosscheck_usr_bin_z3")
    cov["kinds"] = len(kn)
    cov["slots"] = len(sn)
    cov["rows"] = len(rows)
    cov["valid_rows"] = nvalid
    cov["redundant_parentheses_rows"] = redundant
    cov["stratification_residue"] = residue
    cov["q4_available"] = bool(internals and slot_prec)
    cov["shapes_valid"] = len(valid_sh)
    cov["depth3_valid_trees"] = n3
    cov["depth3_failing"] = len(bad3)
    cov["depth3_build_s"] = round(t3, 1)
    cov["deep_trees"] = len(deep)
    cov["emitted_trees"] = len(em)
    cov["evaluations"] = nvalid + len(valid_sh) + n3 + len(deep) + len(em)
    cov["distinct_nontrivial"] = nvalid + len(valid_sh)
    cov["rule"] = "every (slot, kind) composition of the catalogue that CPython's own unparser/parser round-trips (valid AST); every valid depth-3 composition slot(slot(kind)) (quick: a seed-rotated half of the middle slots); every shape of vf/kernels/shapes.py; seeded random compositions of depth 3-6; trees emitted by the converter"
    cov["samples"] = [{"row": "%s|%s" % sk, "emitted": r["out"], "valid": r["valid"], "ok": r["ok"]} for sk, r in list(rows.items())[:: max(1, len(rows) // 5)][:5]]
    cov["table_build_s"] = round(t_tab, 2)
    cov["masked"] = masked
    cov["inconclusive_queries"] = inconclusive
    cov["functions_encoded"] = ["oneliner.expr_unparse.expr_unparse (driven over the catalogue)", "oneliner.expr_unparse._Node (precedence decision, observed)", "oneliner.expr_unparse.get_node_precedence", "every unparse_* generator (slot precedences observed through the HOLE child)"]
    rep.assumptions += [
        "induction principle: CPython's expression grammar is stratified (corroborated by Q1: a model exists up to the listed lexical residue, and by the deep-tree replays)",
        "type_comment / position info / pattern nodes are outside the property",
        "the oracle of every table entry is CPython's parser on this interpreter (3.12); other interpreters: C15",
    ]
    return rep.finish()


def replay(rec):
    U = load_unparser()
    tree = eval(rec["tree"], {k: getattr(ast, k) for k in dir(ast)})
    ok, txt = roundtrip_ok(U, tree)
    return {"reproduced": not ok, "emitted": txt, "divergence": "roundtrip-diff"}
