"""C14 -- imports bind the same objects to the same names."""
import json
import os
import subprocess
import sys
import tempfile

from .. import common, rt, sce
from ..families import c14 as fam
from ..models import importstub
from .c05 import merge

PARAMS = [("IMP_PRE", "List[bool]"), ("IMP_OTHER_ATTR", "bool"), ("IMP_ANCHOR", "bool"), ("V", "List[int]"), ("FLAG", "bool")]
PRE = "len(IMP_PRE) == 6 and len(V) == 6"


def samples():
    out = []
    for pre in ([False] * 6, [True] * 6, [False, True, True, False, False, False], [False, True, False, False, False, False]):
        for oa in (False, True):
            for an in (False, True):
                out.append({"IMP_PRE": list(pre), "IMP_OTHER_ATTR": oa, "IMP_ANCHOR": an, "V": [10, 20, 30, 40, 50, 60], "FLAG": (len(out) % 2 == 0)})
    return out


VENDORED = {
    "top.py": "LOG.append('exec top')\ntv = V[0]\n",
    "pkg/__init__.py": "LOG.append('exec pkg')\npv = V[1]\nOTHER_ATTR\n",
    "pkg/sub/__init__.py": "LOG.append('exec pkg.sub')\nsv = V[2]\n",
    "pkg/sub/leaf.py": "LOG.append('exec pkg.sub.leaf')\nlv = V[3]\n",
    "pkg/other.py": "LOG.append('exec pkg.other')\nov = V[4]\n",
    "pkg/sub/sib.py": "LOG.append('exec pkg.sub.sib')\nbv = V[5]\n",
}

RUNNER = r'''
import sys, json, builtins, types
sys.path.insert(0, sys.argv[1])
LOG = []
builtins.LOG = LOG
builtins.V = [10, 20, 30, 40, 50, 60]
src = open(sys.argv[2]).read()
anchor = sys.argv[3]
def val(v):
    if isinstance(v, types.ModuleType): return ["mod", v.__name__]
    return v
def log(*a):
    LOG.append(["log"] + [val(x) if not isinstance(x, (list, tuple)) else list(x) for x in a])
if anchor != "-":
    __import__(anchor)
    LOG.clear() if False else None
g = {"log": log, "val": val, "FLAG": True, "__package__": (anchor if anchor != "-" else None), "__name__": (anchor + ".mod" if anchor != "-" else "__main__")}
try:
    exec(compile(src, "<src>", "exec"), g, g)
    print(json.dumps({"ok": True, "log": LOG}, default=str))
except Exception as e:
    print(json.dumps({"ok": False, "error": type(e).__name__, "log": LOG}, default=str))
'''


def validate_stub(rep, tier, seed=0):
    """the stub against the REAL import system on a vendored on-disk copy of the same tree (fresh
    subprocess per program): sequence of module executions and logged values must coincide"""
    n = 0
    with tempfile.TemporaryDirectory(prefix="olverif-imp-") as d:
        for other_attr in (False, True):
            root = os.path.join(d, "t%d" % other_attr)
            for rel, text in VENDORED.items():
                if other_attr and rel == "pkg/other.py":
                    continue
                p = os.path.join(root, rel)
                os.makedirs(os.path.dirname(p), exist_ok=True)
                with open(p, "w") as f:
                    f.write(text.replace("OTHER_ATTR", "other = ('attr-other', V[4])" if other_attr else "pass"))
            runner = os.path.join(d, "runner.py")
            with open(runner, "w") as f:
                f.write(RUNNER)
            progs = [p for p in fam.programs() if p[0].endswith(":module") or (tier == "thorough" and p[0].endswith(":function"))]
            if tier == "quick":
                progs = [p for k, p in enumerate(progs) if ":pair_" not in p[0] or k % 3 == seed % 3]
            sq = [p for p in fam.seq_programs() if p[0].endswith(":module")]
            progs += [p for k, p in enumerate(sq) if tier == "thorough" or k % 6 == seed % 6]
            for desc, src in progs:
                rel = "rel" in desc
                for anchor in (("pkg", "pkg.sub") if rel else ("-",)):
                    sp = os.path.join(d, "prog.py")
                    with open(sp, "w") as f:
                        f.write(src)
                    r = subprocess.run([sys.executable, runner, root, sp, anchor], capture_output=True, text=True, timeout=60)
                    try:
                        real = json.loads(r.stdout.strip().splitlines()[-1])
                    except Exception:
                        rep.harness_error("real import run failed for %s: %s" % (desc, r.stderr[-200:]))
                        continue
                    # stub run (concrete); pre-imported = the anchor package chain for relative forms
                    pre = [False] * 6
                    if anchor != "-":
                        pre[1] = True
                        if anchor == "pkg.sub":
                            pre[2] = True
                    env = rt.Env({"IMP_PRE": pre, "IMP_OTHER_ATTR": other_attr, "IMP_ANCHOR": anchor == "pkg.sub", "V": [10, 20, 30, 40, 50, 60], "FLAG": True}, budget=500)
                    ok = True
                    err = None
                    try:
                        exec(compile(src, "<src>", "exec"), env.g, env.g)
                    except Exception as e:
                        ok = False
                        err = type(e).__name__
                    stub_log = norm_trace(env.trace)
                    real_log = norm_real(real["log"], anchor)
                    n += 1
                    if ok != real["ok"] or stub_log != real_log:
                        rep.harness_error("import stub disagrees with the real import system on %s (anchor %s, other_attr %s): stub ok=%s %s %r / real ok=%s %s %r" % (desc, anchor, other_attr, ok, err, stub_log[:8], real["ok"], real.get("error"), real_log[:8]))
    return n


def norm_trace(trace):
    out = []
    for e in trace:
        if e[0] == "exec":
            out.append("exec " + e[1])
        elif e[0] == "log":
            out.append(json.dumps(["log"] + [unc(x) for x in e[1:]], default=str))
    return out


def unc(x):
    """canonical observation -> plain JSON-able (only the shapes the C14 programs log)"""
    if isinstance(x, tuple):
        if x and x[0] in ("T", "L"):
            return [unc(y) for y in x[1:]]
        if x and x[0] == "b":
            return x[1]
        if x and x[0] == "<mod>":
            return ["mod", x[1]]
        if x and x[0] == "mod":
            return ["mod", x[1]]
        return [unc(y) for y in x]
    return x


def norm_real(log, anchor):
    out = []
    skip = set()
    if anchor != "-":
        skip.add("exec pkg")
        if anchor == "pkg.sub":
            skip.add("exec pkg.sub")
    for e in log:
        if isinstance(e, str):
            if e in skip:
                skip.discard(e)
                continue
            out.append(e)
        else:
            out.append(json.dumps(e, default=str))
    return out


def run(tier):
    seed = common.seed()
    rep = common.Report("C14", tier, "translation_validation")
    known = common.Known("C14")
    nval = validate_stub(rep, tier, seed)
    if rep.harness_errors:
        return rep.finish()
    tpls = []
    seqp = list(fam.seq_programs())
    if tier == "quick":
        seqp = [p for k, p in enumerate(seqp) if k % 5 == seed % 5]
    allp = list(fam.programs())
    if tier == "quick":
        # pair forms: a seed-rotated half of the module placements and an eighth of the other placements
        allp = [p for k, p in enumerate(allp) if ":pair_" not in p[0] or (k % 2 == seed % 2 if p[0].endswith(":module") else k % 8 == seed % 8)]
    allp = allp + seqp
    for k, (desc, src) in enumerate(allp):
        t = sce.Template(desc, src, PARAMS, PRE, observe="trace+globals", budget=300, samples=samples())
        if tier == "quick":
            t.sem_configs = [common.SEM_CONFIGS[(k + seed) % 4]]
        else:
            t.sem_configs = [common.SEM_CONFIGS[k % 4], common.SEM_CONFIGS[(k + 2) % 4]]
        tpls.append(t)
    with common.Workdir("c14") as wd:
        d = sce.Driver(rep, known, wd, tier, per_cond_timeout=60 if tier == "quick" else 200)
        d.run(tpls)
        agg = merge(None, d)
        sce.report_known(d, rep, known)
    cov = rep.coverage
    cov.update(agg["stats"])
    cov["samples"] = agg["samples"][:3]
    cov["universe"] = {"forms": len(fam.FORMS), "pair_forms": len(fam._pair_forms()), "programs_universe": len(list(fam.programs())), "sequence_programs_universe": len(list(fam.seq_programs())), "programs": len(tpls)}
    cov["exhaustive"] = tier == "thorough"
    cov["inconclusive_obligations"] = agg["inconclusive"][:50]
    cov["stub_validation_cases"] = nval
    cov["functions_encoded"] = ["oneliner.convert_code_string (concrete)", "converted text (symbolic): PendingImport.get_result / PendingImportFrom.get_result, Namespace*.get_assign", "vf.models.importstub.ImportStub (stub import system, both sides)"]
    cov["bounds"] = "24 statement forms + every ordered pair of 10 single-alias items in one import statement (91 forms) x placement; plus sequences of two import statements that bind the same name under control flow (first one conditional on a symbolic flag, if/else, rebinding in between, loops, a function called twice) {module, function, class, function with global declaration, captured by an inner function}; symbolic environment: which of the 6 modules of the abstract tree are already imported, whether pkg.other is an attribute or a submodule, the anchor package of relative imports (pkg / pkg.sub), all module attribute values"
    cov["explanation"] = "one PEP-316 condition per (program, configuration): over every import environment the order and count of module executions, the logged identities/values of the bound names, the scope they are bound in and the final globals of exec(source) and eval(converted) coincide"
    rep.assumptions += ["stub: the import system is replaced on both sides by vf.models.importstub (validated against the real import system on a vendored on-disk copy of the tree in %d fresh-process runs at check start)" % nval, "the source reaches the stub through CPython's real IMPORT_NAME/IMPORT_FROM byte-code"]
    return rep.finish()
