"""C12 -- classes keep their members, bases, metaclass, method kinds and super()."""
import random

from .. import common, sce
from ..families import c12 as fam
from .c05 import merge


def runs_clean(src):
    """the skeleton is a legal program: CPython runs it without exception for two valuations"""
    from .. import rt

    try:
        code = compile(src, "<s>", "exec")
    except SyntaxError:
        return False
    for a, b in ((3, 5), (5, 3)):
        env = rt.Env({"a": a, "b": b}, budget=400)
        try:
            exec(code, env.g, env.g)
        except Exception:
            return False
    return True


def build(tier, seed):
    rnd = random.Random(seed)
    sk = list(dict(fam.skeletons()).items())
    if tier == "quick":
        chosen = rnd.sample(sk, 170)
    else:
        chosen = sk
    tpls = []
    invalid = 0
    for k, (desc, src) in enumerate(chosen):
        if not runs_clean(src):
            invalid += 1
            continue
        t = sce.Template(desc, src, [("a", "int"), ("b", "int")], "True", observe="trace", budget=400)
        if tier == "quick":
            t.sem_configs = [common.SEM_CONFIGS[(k + seed) % 4]]
        else:
            t.sem_configs = [common.SEM_CONFIGS[k % 4], common.SEM_CONFIGS[(k + 2) % 4]]
        tpls.append(t)
    return tpls, {"skeleton_universe": len(sk), "chosen": len(chosen), "dropped_source_raises": invalid, "headers": len(list(fam.headers())), "member_kinds": len(fam.MEMBERS)}


def run(tier):
    seed = common.seed()
    rep = common.Report("C12", tier, "translation_validation")
    known = common.Known("C12")
    tpls, note = build(tier, seed)
    with common.Workdir("c12") as wd:
        d = sce.Driver(rep, known, wd, tier, per_cond_timeout=25 if tier == "quick" else 90)
        d.run(tpls)
        agg = merge(None, d)
        sce.report_known(d, rep, known)
    cov = rep.coverage
    cov.update(agg["stats"])
    cov["samples"] = agg["samples"][:3]
    cov["universe"] = note
    cov["exhaustive"] = False
    cov["inconclusive_obligations"] = agg["inconclusive"][:50]
    cov["masked_templates_count"] = len(set(agg["masked"]))
    cov["functions_encoded"] = [
        "oneliner.convert_code_string (concrete)",
        "converted text (symbolic): PendingClassDef.get_result (type call, loader lambda, member installation), NamespaceClass.get_assign/get_load_name, PendingFunctionDef (methods, __class__ cell, __init_subclass__ wrapper)",
    ]
    cov["bounds"] = "class skeletons: every legal header (bases none/one/chain/diamond/__init_subclass__ base x metaclass x class keyword x 0-2 decorators/replacing decorator x placement module/function/class) with 3 rotating members, every member kind alone and every pair of member kinds with the default header; attribute values and method arguments are symbolic ints a, b"
    cov["explanation"] = "one PEP-316 condition per (skeleton, configuration): canonical vars(cls) (minus metadata), MRO names, metaclass name, and the result of every member called on an instance and on a subclass must coincide for all a, b"
    rep.assumptions += ["class metadata (__doc__, __qualname__, __module__, __firstlineno__, __static_attributes__) and __set_name__ are excluded by the property statement", "helpers injected: log"]
    return rep.finish()
