"""C11 -- functions keep their signature, call binding, defaults and decorators.
Both callables are real Python functions (binding is done by CPython); CrossHair/z3 explore every
call shape of the battery (number of positionals, keyword subset, star-call) and all argument and
default values."""
import random

from .. import common, sce
from ..families import c11 as fam
from .c05 import merge


def build(tier, seed):
    rnd = random.Random(seed)
    shapes = list(fam.shapes())
    if tier == "quick":
        core = [s for s in shapes if sum(s[:5]) <= 2]
        rest = [s for s in shapes if sum(s[:5]) > 2]
        chosen = core + rnd.sample(rest, 170)
    else:
        chosen = shapes
    tpls = []
    for k, sh in enumerate(chosen):
        annotate = (k % 3 == 0)
        src, names, npos, nv = fam.render(sh, annotate)
        maxpos = min(npos + 1, 3 if tier == "quick" else 5)
        ks = fam.kwsets(names, tier)
        maxk = max(len(x) for x in ks)
        params = [("V", "List[int]"), ("npos", "int"), ("ks", "int"), ("star", "bool")]
        pre = "len(V) == %d and 0 <= npos <= %d and 0 <= ks < %d" % (nv, maxpos, len(ks))
        t = sce.Template(
            "C11:shape:%s%s" % (fam.shape_desc(sh), ":ann" if annotate else ""),
            src,
            params,
            pre,
            observe="trace",
            budget=100,
            hook="call_f",
            meta={"kwsets": [list(x) for x in ks], "maxpos": maxpos},
        )
        if tier == "quick" or sum(sh[:5]) > 3:
            # (thorough: the large shapes -- most of the cost -- get one rotating configuration)
            t.sem_configs = [common.SEM_CONFIGS[(k + seed) % 4]]
        else:
            t.sem_configs = [common.SEM_CONFIGS[k % 4], common.SEM_CONFIGS[(k + 1) % 4]]
        tpls.append(t)
    for name, src in fam.PLACEMENT_TEMPLATES.items():
        names, nv = fam.PLACEMENT_NAMES[name]
        ks = fam.kwsets(names, "quick")
        maxk = max(len(x) for x in ks)
        maxpos = 4
        params = [("V", "List[int]"), ("npos", "int"), ("ks", "int"), ("star", "bool"), ("A", "List[int]"), ("K", "List[int]")]
        pre = "len(V) == %d and 0 <= npos <= %d and 0 <= ks < %d and len(A) == %d and len(K) == %d" % (nv, maxpos, len(ks), maxpos, maxk)
        if name in ("recursive",):
            pre += " and all(-2 <= x <= 3 for x in A) and all(-2 <= x <= 3 for x in K)"
        t = sce.Template("C11:placement:%s" % name, src, params, pre, observe="trace", budget=100, hook="call_f", meta={"kwsets": [list(x) for x in ks], "maxpos": maxpos})
        # explicit witnesses (the generic sample generator does not understand all(...) bounds)
        t.samples = [{"V": [1, 2][:nv], "npos": p, "ks": k, "star": st, "A": [1, 2, 3, 1][:maxpos], "K": [0, 1, 2][:maxk]} for p, k, st in ((1, 0, False), (2, 1, True), (0, 0, False), (3, 2, False))]
        tpls.append(t)
    return tpls, {"shapes_universe": len(shapes), "shapes_checked": len(chosen), "placement_templates": len(fam.PLACEMENT_TEMPLATES)}


def run(tier):
    seed = common.seed()
    rep = common.Report("C11", tier, "translation_validation")
    known = common.Known("C11")
    tpls, note = build(tier, seed)
    with common.Workdir("c11") as wd:
        d = sce.Driver(rep, known, wd, tier, per_cond_timeout=40 if tier == "quick" else 240)
        d.run(tpls)
        agg = merge(None, d)
        sce.report_known(d, rep, known)
    cov = rep.coverage
    cov.update(agg["stats"])
    cov["samples"] = agg["samples"][:4]
    cov["universe"] = note
    cov["exhaustive"] = tier == "thorough"
    cov["inconclusive_obligations"] = agg["inconclusive"][:50]
    cov["functions_encoded"] = [
        "oneliner.convert_code_string (concrete, every shape)",
        "converted text (symbolic): PendingFunctionDef.__init__/get_result (argument copy, defaults, decorators, return temp), expr_unparse.unparse_Lambda / ast.unparse (signature text)",
        "vf.rt.hook_call_f (the symbolic call battery, identical on both sides)",
    ]
    cov["bounds"] = "parameter lists with <= 2 parameters per kind (756 shapes; quick: all shapes with <= 2 parameters + 170 seed-rotated); call battery: 0..min(n+1,3|5) positionals x keyword subsets (quick: none, singles incl. unknown name, two pairs; thorough: all subsets up to 96) x direct/star call; all argument and default values symbolic ints"
    cov["explanation"] = "for every shape the def is converted by the real converter; the symbolic call battery is applied to the function objects obtained from exec(source) and eval(converted); equality of ('ok', bound values) | ('TypeError',) is decided by CrossHair/z3 for all call shapes and values"
    rep.assumptions += ["annotations are metadata (dropped by the converter, excluded by the property)", "TypeError messages are not compared"]
    return rep.finish()
