"""C08 -- unsupported constructs are rejected, never silently dropped or mistranslated."""
import json

from .. import chrun, common
from ..kernels import c08k


def run(tier):
    rep = common.Report("C08", tier, "other")
    known = common.Known("C08")
    common.import_repo()
    unk = c08k.unsupported_catalogue_complete()
    if unk:
        rep.harness_error("ast has statement classes that are neither converted nor in the construct catalogue: %s" % unk)
        return rep.finish()
    K = c08k
    # cells listed as known findings are excluded from the slices through the pre line and
    # reported separately, so that the remaining cells can still be confirmed or refuted
    excl_stmt = set()
    for e in known.entries:
        for d in e.get("inputs", []):
            if d.startswith("C08:stmt:"):
                hn, cn = d.split(":")[2].split("|")
                excl_stmt.add(([h for h, _ in K.STMT_HOSTS].index(hn), [c for c, _ in K.STMT_CONSTRUCTS].index(cn)))
    conds = []
    for h, (hn, _) in enumerate(K.STMT_HOSTS):
        ex = sorted(c for (hh, c) in excl_stmt if hh == h)
        pre = "h == %d and 0 <= c < %d and 0 <= cfgi < 2" % (h, len(K.STMT_CONSTRUCTS))
        if ex:
            pre += " and c not in (%s,)" % ", ".join(map(str, ex))
        conds.append(chrun.Condition("C08:stmt:%s" % hn, [("h", "int"), ("c", "int"), ("cfgi", "int")], pre, "    return c08k.k_stmt(h, c, cfgi)"))
    nbase = len(K.EXPR_BASE)
    if tier == "quick":
        # bare constructs everywhere + a seed-rotated twelfth of the nested (wrapped) constructs
        sd = common.seed()
        csel = [c for c in range(len(K.EXPR_CONSTRUCTS)) if c < nbase or (c + sd) % 12 == 0]
    else:
        csel = list(range(len(K.EXPR_CONSTRUCTS)))
    for h, (hn, _) in enumerate(K.EXPR_HOSTS):
        conds.append(chrun.Condition("C08:expr:%s" % hn, [("h", "int"), ("c", "int"), ("cfgi", "int")], "h == %d and c in (%s,) and 0 <= cfgi < 2" % (h, ", ".join(map(str, csel))), "    return c08k.k_expr(h, c, cfgi)"))
    conds.append(chrun.Condition("C08:illegal", [("i", "int"), ("cfgi", "int")], "0 <= i < %d and 0 <= cfgi < 2" % len(K.ILLEGAL), "    return c08k.k_illegal(i, cfgi)"))
    conds.append(chrun.Condition("C08:legal_near_misses", [("i", "int"), ("cfgi", "int")], "0 <= i < %d and 0 <= cfgi < 2" % len(K.LEGAL_NEAR_MISSES), "    return c08k.k_legal(i, cfgi)"))
    with common.Workdir("c08") as wd:
        results, counts, st = chrun.check_conditions(conds, "from vf.kernels import c08k\n", wd, per_cond_timeout=120, batch=4, jobs=16, label="rej")
    discharged = 0
    inconclusive = []
    cells = 0
    for cid, (verdict, info) in sorted(results.items()):
        if verdict == "confirmed":
            discharged += 1
        elif verdict == "cex":
            args = (info or {}).get("args")
            if not args:
                inconclusive.append(cid)
                continue
            # CrossHair stops at the first failing cell of a slice: enumerate the slice concretely
            # so that every failing cell is reported (each one replayed against the real converter)
            for desc, src, why in failing_cells(cid):
                if known.match(desc, None, None, why):
                    continue
                rep.violation({"property": "C08", "kind": "c08", "descriptor": desc, "src": src, "divergence": why, "what": "%s: %s\n%s" % (desc, why, src)})
        else:
            inconclusive.append(cid)
    # known cells: re-check and report
    for e in known.entries:
        still = [d for d in e.get("inputs", []) if cell_fails(d)]
        if still:
            rep.known("%s: %s (%d listed cells still fail)" % (e["id"], e["what"], len(still)))
        else:
            rep.note("known finding %s: no listed cell fails any more" % e["id"])
    ncells = 2 * (len(K.STMT_HOSTS) * len(K.STMT_CONSTRUCTS) + len(K.EXPR_HOSTS) * len(csel) + len(K.ILLEGAL) + len(K.LEGAL_NEAR_MISSES))
    cov = rep.coverage
    cov["explanation"] = "E1 selector slices over the real convert_code_string: (host position x unsupported construct x configuration) cells; every path is concrete after the selectors are picked, the solver's role is the exhaustiveness certificate of each slice. For programs that parse but that CPython refuses to compile (illegal placements), the oracle is CPython's own compile(). Legal near-misses must be accepted."
    cov["obligations"] = len(conds)
    cov["discharged"] = discharged
    cov["inconclusive"] = inconclusive
    cov["cells"] = ncells
    cov["evaluations"] = ncells
    cov["distinct_nontrivial"] = ncells // 2
    cov["rule"] = "cell = (host, construct, configuration); distinct = (host, construct)"
    cov["samples"] = [{"host": K.STMT_HOSTS[3][0], "construct": K.STMT_CONSTRUCTS[6][0], "source": K.build(K.STMT_HOSTS[3][1], K.STMT_CONSTRUCTS[6][1])}, {"host": K.EXPR_HOSTS[10][0], "construct": K.EXPR_CONSTRUCTS[0][0], "source": K.wrap_in_function(K.build_expr(K.EXPR_HOSTS[10][1], K.EXPR_CONSTRUCTS[0][1]), False)}, {"illegal": K.ILLEGAL[5][0], "source": K.ILLEGAL[5][1]}]
    cov["hosts"] = {"statement": [h for h, _ in K.STMT_HOSTS], "expression": [h for h, _ in K.EXPR_HOSTS]}
    cov["constructs"] = {"statement": [c for c, _ in K.STMT_CONSTRUCTS], "expression_base": [c for c, _ in K.EXPR_BASE], "expression_wrappers": [w for w, _ in K.EXPR_WRAPS], "expression_constructs_total": len(K.EXPR_CONSTRUCTS), "expression_constructs_in_this_run": len(csel), "illegal": [c for c, _ in K.ILLEGAL]}
    cov["solver_cpu_s"] = st["solver_cpu_s"]
    cov["functions_encoded"] = ["oneliner.convert_code_string", "oneliner.convert.convert (dispatch table ast2pending)", "oneliner.pending_nodes (PendingBreak/Continue/Return placement checks, assign_tuple_list star check, _iter_branch)", "oneliner.expr_transform.ExpressionTransformer.get_pending (yield/await refusal)"]
    rep.assumptions += ["inductive reading: the dispatcher refuses every statement kind outside the table, every compound statement forwards every child statement, every expression goes through the expression transformer; the slices check each of these links at every host position of the catalogue", "README.md 'Limitations' is the list of unsupported constructs"]
    return rep.finish()


def failing_cells(cid):
    K = c08k
    out = []
    parts = cid.split(":")
    if parts[1] == "stmt":
        h = [x for x, _ in K.STMT_HOSTS].index(parts[2])
        for c in range(len(K.STMT_CONSTRUCTS)):
            for cfgi in (0, 1):
                ok, src = K.cell_stmt(h, c, cfgi)
                if not ok:
                    out.append(("C08:stmt:%s|%s" % (parts[2], K.STMT_CONSTRUCTS[c][0]), src, "not-rejected"))
                    break
    elif parts[1] == "expr":
        h = [x for x, _ in K.EXPR_HOSTS].index(parts[2])
        for c in range(len(K.EXPR_CONSTRUCTS)):
            for cfgi in (0, 1):
                ok, src = K.cell_expr(h, c, cfgi)
                if not ok:
                    out.append(("C08:expr:%s|%s" % (parts[2], K.EXPR_CONSTRUCTS[c][0]), src, "not-rejected"))
                    break
    elif parts[1] == "illegal":
        for i in range(len(K.ILLEGAL)):
            for cfgi in (0, 1):
                ok, src = K.cell_illegal(i, cfgi)
                if not ok:
                    out.append(("C08:illegal:%s" % K.ILLEGAL[i][0], src, "not-rejected"))
                    break
    else:
        for i in range(len(K.LEGAL_NEAR_MISSES)):
            for cfgi in (0, 1):
                ok, src = K.cell_legal(i, cfgi)
                if not ok:
                    out.append(("C08:legal:%s" % K.LEGAL_NEAR_MISSES[i][0], src, "legal-program-rejected"))
                    break
    return out


def cell_fails(desc):
    K = c08k
    parts = desc.split(":")
    try:
        if parts[1] == "stmt":
            hn, cn = parts[2].split("|")
            h = [x for x, _ in K.STMT_HOSTS].index(hn)
            c = [x for x, _ in K.STMT_CONSTRUCTS].index(cn)
            return not all(K.cell_stmt(h, c, g)[0] for g in (0, 1))
        if parts[1] == "expr":
            hn, cn = parts[2].split("|")
            h = [x for x, _ in K.EXPR_HOSTS].index(hn)
            c = [x for x, _ in K.EXPR_CONSTRUCTS].index(cn)
            return not all(K.cell_expr(h, c, g)[0] for g in (0, 1))
        if parts[1] == "illegal":
            i = [x for x, _ in K.ILLEGAL].index(parts[2])
            return not all(K.cell_illegal(i, g)[0] for g in (0, 1))
    except ValueError:
        return False
    return False


def replay(rec):
    common.import_repo()
    return {"reproduced": cell_fails(rec["descriptor"]) if not rec["descriptor"].startswith("C08:legal") else True, "divergence": rec.get("divergence")}
