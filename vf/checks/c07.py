"""C07 -- each source subexpression is evaluated once, in Python's order."""
from .. import common, sce
from ..families import c07 as fam
from .c05 import merge


def run(tier):
    seed = common.seed()
    rep = common.Report("C07", tier, "translation_validation")
    known = common.Known("C07")
    tpls = []
    for k, (desc, src, params, pre) in enumerate(fam.templates()):
        t = sce.Template(desc, src, params, pre, observe="trace", budget=300)
        if tier == "quick":
            t.sem_configs = [common.SEM_CONFIGS[(k + seed) % 4], common.SEM_CONFIGS[(k + seed + 2) % 4]]
        tpls.append(t)
    with common.Workdir("c07") as wd:
        d = sce.Driver(rep, known, wd, tier, per_cond_timeout=20 if tier == "quick" else 60)
        d.run(tpls)
        agg = merge(None, d)
        sce.report_known(d, rep, known)
    cov = rep.coverage
    cov.update(agg["stats"])
    cov["samples"] = agg["samples"][:4]
    cov["universe"] = {"templates": len(tpls)}
    cov["exhaustive"] = False
    cov["inconclusive_obligations"] = agg["inconclusive"][:50]
    cov["masked_templates"] = sorted(set(agg["masked"]))
    cov["functions_encoded"] = [
        "oneliner.convert_code_string (concrete)",
        "converted text (symbolic): PendingAssign.*, PendingAugAssign.get_result, PendingFunctionDef (defaults, decorators), PendingClassDef (bases, keywords, metaclass), PendingIf/While/For headers, PendingReturn, PendingExpr, expr_transform (generic expression copy)",
    ]
    cov["bounds"] = "statement templates of families/c07.py (every assignment target shape, 13 operators x name/attribute/subscript/logging-container/slice, def defaults+decorators, class header, if/while/for headers, return, calls, comprehensions, f-strings, lambda defaults, walrus); probe values symbolic ints where they steer control (indices, truthiness)"
    cov["explanation"] = "every subexpression is probe(i, v) which logs i; CrossHair/z3 decide that the ordered probe log (and the load/store events of the logging container) of exec(source) and eval(converted) coincide for all symbolic values"
    rep.assumptions += ["helpers injected on both sides: probe, log, mark, Box, UV", "observable is the order and count of probe events, container loads/stores and logged values"]
    return rep.finish()
