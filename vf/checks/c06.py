"""C06 -- every name resolves to the same variable after lowering of scopes."""
import random

from .. import common, sce
from ..families import c06 as fam
from .c05 import merge


def valid(src, nsites):
    """CPython accepts the program and runs it without exception (concrete run)"""
    try:
        code = compile(src, "<s>", "exec")
    except SyntaxError:
        return False
    from .. import rt

    env = rt.Env({"V": [1000 + 7 * i for i in range(nsites)]}, budget=400)
    try:
        exec(code, env.g, env.g)
    except Exception:
        return False
    return True


POOL3_SEED = 20260926
POOL3_SIZE = 6000


def build(tier, seed):
    import os

    rnd = random.Random(seed)
    c1 = list(fam.chains(1))
    c2 = [c for c in fam.chains(2) if fam.chain_depth(c[1][0]) == 2]
    sb = list(fam.siblings()) + list(fam.nested_expr_siblings())
    c3 = [c for c in fam.chains(3) if fam.chain_depth(c[1][0]) == 3]
    # depth 3 is sampled: a FIXED pool (so that every member was triaged once); the seed only chooses
    # which part of the pool the quick tier visits
    pool3 = random.Random(POOL3_SEED).sample(c3, POOL3_SIZE)
    note = {"depth1": len(c1), "depth2_universe": len(c2), "siblings_universe": len(sb), "depth3_universe": len(c3), "depth3_pool": len(pool3)}
    dc = list(fam.decl_chains())
    ub = list(fam.unbound_fallback())
    note["decl_chains_universe"] = len(dc)
    note["unbound_fallback_universe"] = len(ub)
    if tier == "quick":
        chosen = c1 + rnd.sample(c2, 700) + rnd.sample(sb, 150) + rnd.sample(pool3, 200) + rnd.sample(dc, 400) + ub
    else:
        chosen = c1 + c2 + sb + pool3 + dc + ub
    allcfg = bool(os.environ.get("VERIF_ALLCFG"))
    # the same trees with every comprehension rendered as a generator expression
    gen_univ = [c for c in (c1 + c2 + sb) if fam.has_comp(c[1])]
    note["genexp_universe"] = len(gen_univ)
    gens = rnd.sample(gen_univ, 250) if tier == "quick" else gen_univ
    chosen = [(m, ch, False) for m, ch in chosen] + [(m, ch, True) for m, ch in gens]
    tpls = []
    nvalid = 0
    for k, (mrole, children, gen) in enumerate(chosen):
        src, ns = (fam.render_gen if gen else fam.render)(mrole, children)
        if not valid(src, ns):
            continue
        nvalid += 1
        # a module-level for target is unbound after the loop (known finding KF-C06-FORLEAK): its
        # final global binding is not compared; every read of it inside the loop still is
        ign = []
        t = sce.Template(fam.desc(mrole, children) + ("~gen" if gen else ""), src, [("V", "List[int]")], "len(V) == %d" % ns, observe="trace+globals", budget=400, ignore_globals=ign)
        if not allcfg:
            t.sem_configs = [common.SEM_CONFIGS[(k + seed) % 4]]
        tpls.append(t)
    note["enumerated"] = len(chosen)
    note["valid_programs"] = nvalid
    return tpls, note


def run(tier):
    seed = common.seed()
    rep = common.Report("C06", tier, "translation_validation")
    known = common.Known("C06")
    tpls, note = build(tier, seed)
    with common.Workdir("c06") as wd:
        d = sce.Driver(rep, known, wd, tier, per_cond_timeout=20 if tier == "quick" else 60)
        d.run(tpls)
        agg = merge(None, d)
        sce.report_known(d, rep, known)
    cov = rep.coverage
    cov.update(agg["stats"])
    cov["samples"] = agg["samples"][:4]
    cov["universe"] = note
    cov["exhaustive"] = False
    cov["inconclusive_obligations"] = agg["inconclusive"][:50]
    cov["masked_templates_count"] = len(set(agg["masked"]))
    cov["functions_encoded"] = [
        "oneliner.convert_code_string (concrete; namespaces.generate_nsp / Namespace*.get_assign / get_load_name decide every read and write)",
        "converted text (symbolic)",
    ]
    cov["bounds"] = "scope trees: depth 1 exhaustive, depth 2 chains (exhaustive in thorough, sampled in quick), two-children trees of the interacting roles, depth 3 sampled; one tracked name; every binding site stores a distinct symbolic int V[i]"
    cov["explanation"] = "one PEP-316 condition per program: for all values V of the binding sites, the trace of every read of x in every scope and the final globals of exec(source) and eval(converted) coincide (a read or write resolved to the wrong variable differs for some valuation, which z3 finds)"
    rep.assumptions += ["programs that CPython rejects or that raise at run time are outside the property", "helpers injected: log, val"]
    return rep.finish()
