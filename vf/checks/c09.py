"""C09 -- helper names never capture or clobber user identifiers."""
import random

from .. import common, sce
from ..families import c01, c09 as fam
from .c05 import merge


def derive_helper_set(ol):
    """H is re-derived on every run from what the converter actually emits"""
    from oneliner.config import Configs

    pairs = []
    progs = [p for p in c01.programs() if p[0].startswith("C01:single:")] + list(c01.repo_scripts(common.REPO))
    for d, src in progs:
        for w, i in common.SEM_CONFIGS:
            c = Configs()
            c.unparser, c.expr_wrapper, c.if_style = "ast.unparse", w, i
            random.seed(3)
            try:
                pairs.append((ol.convert_code_string(src, configs=c), src))
            except Exception:
                pass
    return fam.helper_names(pairs), pairs


def run(tier):
    seed = common.seed()
    rep = common.Report("C09", tier, "translation_validation")
    known = common.Known("C09")
    ol = common.import_repo()
    H, pairs = derive_helper_set(ol)
    new_helpers = sorted(H - set(fam.STATIC_H))
    names = list(fam.STATIC_H) + new_helpers + [fam.CONTROL]
    cells = list(fam.cells(names))
    # distinctness of temporaries in every output
    not_distinct = [src for out, src in pairs if not fam.temporaries_distinct(out)]
    for src in not_distinct[:5]:
        rep.violation({"property": "C09", "kind": "sce", "descriptor": "C09:temporaries-not-distinct", "src": src, "configs": ["ast.unparse/chain_call/if_expr"], "inputs": None, "divergence": "temporaries-collide", "what": "two __ol_ temporaries of one output share a random suffix"})
    # provenance of every random suffix: produced by a unique_id() call of the same conversion
    from oneliner.config import Configs

    nest = [(d, s) for d, s in fam.nested_pairs() if runs_clean(s)]
    prov_checked = 0
    prov_bad = 0
    for d, src in nest + [("C09:prov:" + dd, ss) for dd, ss in list(c01.repo_scripts(common.REPO))]:
        for w, i in (common.SEM_CONFIGS if tier == "thorough" else common.SEM_CONFIGS[:1]):
            c = Configs()
            c.unparser, c.expr_wrapper, c.if_style = "ast.unparse", w, i
            try:
                r = fam.suffix_provenance(ol, src, c)
            except Exception:
                continue
            if r is None:
                rep.harness_error("oneliner.utils.unique_id not found: suffix provenance cannot be checked")
                break
            prov_checked += 1
            foreign, made, out = r
            if foreign and prov_bad < 5:
                prov_bad += 1
                rep.violation({"property": "C09", "kind": "sce", "descriptor": d + ":suffix-provenance", "src": src, "configs": ["ast.unparse/%s/%s" % (w, i)], "inputs": None, "divergence": "temporaries-collide", "what": "temporary suffix(es) %s of the output were not generated during this conversion (%d unique_id() calls): the name is shared by every use of the construct" % (foreign, made)})
    rnd = random.Random(seed)
    if tier == "quick":
        control = [c for c in cells if c[0].startswith("C09:%s:" % fam.CONTROL)]
        rest = [c for c in cells if not c[0].startswith("C09:%s:" % fam.CONTROL)]
        chosen = control + rnd.sample(rest, min(len(rest), 1000))
    else:
        chosen = cells
    chosen = list(chosen) + nest
    tpls = []
    dropped = 0
    for k, (desc, src) in enumerate(chosen):
        if not runs_clean(src):
            dropped += 1
            continue
        t = sce.Template(desc, src, [("a", "int"), ("b", "int")], "True", observe="trace+globals", budget=300)
        # (thorough: two configurations for the control cells and the nested pairs, one rotating
        # configuration for the 16 000 matrix cells -- sized after the first end-to-end run)
        two = tier == "thorough" and (desc.startswith("C09:%s:" % fam.CONTROL) or desc.startswith(("C09:nest", "C09:seq")))
        t.sem_configs = [common.SEM_CONFIGS[k % 4], common.SEM_CONFIGS[(k + 2) % 4]] if two else [common.SEM_CONFIGS[(k + seed) % 4]]
        tpls.append(t)
    with common.Workdir("c09") as wd:
        d = sce.Driver(rep, known, wd, tier, per_cond_timeout=30 if tier == "quick" else 90)
        d.run(tpls)
        agg = merge(None, d)
        sce.report_known(d, rep, known)
    cov = rep.coverage
    cov.update(agg["stats"])
    cov["samples"] = agg["samples"][:3]
    cov["universe"] = {"identifiers": names, "helper_names_observed_in_outputs": sorted(H), "new_helper_names_not_in_static_list": new_helpers, "roles": fam.ROLES, "features": list(fam.FEATURES), "cells": len(cells), "chosen": len(chosen), "dropped_source_raises": dropped}
    cov["exhaustive"] = tier == "thorough"
    cov["inconclusive_obligations"] = agg["inconclusive"][:50]
    cov["masked_templates_count"] = len(set(agg["masked"]))
    cov["outputs_checked_for_distinct_temporaries"] = len(pairs)
    cov["nested_pairs_programs"] = len(nest)
    cov["suffix_provenance_conversions"] = prov_checked
    cov["functions_encoded"] = ["oneliner.convert_code_string (concrete)", "converted text (symbolic): every lowering that introduces helper names (PendingWhile, PendingFor + presets.iter_wrapper, PendingClassDef loader, PendingImport/ImportFrom, assign_tuple_list, PendingAugAssign, utils.chain_call_wrapper, Namespace*.get_assign)", "oneliner.utils.unique_id (real RNG; distinctness of temporaries)"]
    cov["bounds"] = "identifier set = static list of helper names and builtins the generated code calls + every non-__ol_ identifier the converter is observed to emit in this run + one control name; x 10 roles x %d features; stored values symbolic ints a, b; distinctness of temporaries: %d constructs that introduce temporaries, every ordered nesting pair, every unordered sequence pair, every 3-deep self nesting (%d programs), plus suffix provenance of every output" % (len(fam.FEATURES), len(fam.NEST), len(nest))
    cov["explanation"] = "each cell is a small program in which the identifier is bound in the given role and read inside and after the feature's context; co-execution under CrossHair decides that the converted program behaves like the source for all a, b; the control identifier proves that the cell's program itself is inside the supported fragment"
    rep.assumptions += ["identifiers starting with __ol_ are reserved (excluded by the property)", "cells whose source raises are outside the fragment"]
    return rep.finish()


def runs_clean(src):
    from .. import rt

    try:
        code = compile(src, "<s>", "exec")
    except SyntaxError:
        return False
    for a, b in ((3, 2), (1, 5)):
        env = rt.Env({"a": a, "b": b}, budget=300)
        try:
            exec(code, env.g, env.g)
        except Exception:
            return False
    return True
