"""C16 -- the command line writes exactly the API result and validates options."""
import json
import os
import subprocess
import sys
import tempfile

from .. import chrun, common
from ..kernels import c10k, c16k

BATTERY = [
    [],
    ["-C", "unparser=oneliner"],
    ["-C", "if_style=short_circuit", "-C", "expr_wrapper=list"],
    ["-C", "unparser=bogus"],
    ["-C", "nosuch=1"],
    ["-C", "unparser"],
    ["-C", "a=b=c"],
    ["-C", "config_names=x"],
    ["-C", "__doc__=x"],
    ["--unparser", "oneliner"],
    ["-C", "=list"],
    ["-C", "expr_wrapper= list"],
]


def real_cli(args, data, outk, argv=None):
    """run the real command line in a subprocess inside a scratch directory; returns
    (returncode, stdout, {file name: bytes} after the run)"""
    with tempfile.TemporaryDirectory(prefix="olverif-cli-") as d:
        with open(os.path.join(d, "in.py"), "wb") as f:
            f.write(data)
        with open(os.path.join(d, "old.txt"), "wb") as f:
            f.write(c16k.OLD_CONTENT)
        out = c16k.out_name(outk)
        cmd = [sys.executable, "-W", "ignore", "-m", "oneliner", "in.py"] + list(args) + (["-o", out] if out else [])
        if argv is not None:
            cmd = [sys.executable, "-W", "ignore", "-m", "oneliner"] + list(argv)
        env = dict(os.environ, PYTHONPATH=common.REPO, PYTHONIOENCODING="utf-8")
        p = subprocess.run(cmd, capture_output=True, cwd=d, env=env, timeout=60)
        files = {}
        for n in os.listdir(d):
            fp = os.path.join(d, n)
            if os.path.isfile(fp):
                with open(fp, "rb") as f:
                    files[n] = f.read()
        return p.returncode, p.stdout.decode("utf-8", "replace"), files


def cli_agrees_with_spec(c_args, use_out, dep, si, argv=None):
    """the property's literal observable, on the real CLI (use_out: bool or index into OUT_KINDS;
    argv: the exact command line after the program name, instead of the canonical one)"""
    outk = int(use_out)
    args = []
    for a in c_args:
        args += ["-C", a]
    if dep:
        args += ["--unparser", dep]
    data = c16k.file_bytes(si)
    rc, stdout, files = real_cli(args, data, outk, argv)
    before = {"in.py": data, "old.txt": c16k.OLD_CONTENT}
    target = os.path.normpath(c16k.out_name(outk)) if outk else None
    t = c16k.spec(c_args, dep)
    if t is None:
        return rc != 0 and files == before and stdout.strip() == ""
    if rc != 0:
        return False
    want = c16k.REF[(si, t["unparser"], t["expr_wrapper"], t["if_style"])]
    untouched = all(files.get(n) == v for n, v in before.items() if n != target) and all(n in before or n == target for n in files)
    if outk:
        try:
            got = files[target].decode("utf-8")
        except (KeyError, UnicodeDecodeError):
            return False
        return untouched and stdout == "" and c10k.alpha(got) == want
    got = stdout[:-1] if stdout.endswith("\n") else stdout
    return untouched and c10k.alpha(got) == want


def validate_stubs(rep):
    """stub fidelity: the in-process stubbed run and the real CLI agree on the battery"""
    n = 0
    for args in BATTERY:
        c_args = [args[i + 1] for i in range(0, len(args), 2) if args[i] == "-C"]
        dep = args[args.index("--unparser") + 1] if "--unparser" in args else None
        for use_out in (False, True):
            # (the battery runs the REAL argparse parser in-process as well, on the same command line)
            argv = ["in.py"] + list(args) + (["-o", "out.txt"] if use_out else [])
            inproc = c16k.check(c_args, use_out, dep, 0, argv)
            real = cli_agrees_with_spec(c_args, use_out, dep, 0, argv)
            n += 1
            if inproc != real:
                rep.harness_error("stubbed run and real CLI disagree on %r (out=%s): stub says %s, real CLI says %s" % (args, use_out, inproc, real))
    # order / spelling cells: stub (real argparse in-process) against the real CLI
    for vi in (0, 1):
        for di in (0, 1):
            for form in range(c16k.ORDER_FORMS):
                for use_out in (False, True):
                    argv, cs, dep = c16k.order_argv(vi, di, form, use_out)
                    inproc = c16k.check(cs, use_out, dep, 1, argv)
                    real = cli_agrees_with_spec(cs, use_out, dep, 1, argv)
                    n += 1
                    if inproc != real:
                        rep.harness_error("stubbed run and real CLI disagree on %r: stub says %s, real CLI says %s" % (argv, inproc, real))
    # I/O dimension: every cell of the k_io kernel, stub against the real CLI
    import concurrent.futures

    cells = [(sc, outk, ai) for sc in range(len(c16k.SCRIPTS) + len(c16k.IO_FILES)) for outk in range(len(c16k.OUT_KINDS)) for ai in range(len(c16k.IO_ARGS))]
    with concurrent.futures.ThreadPoolExecutor(max_workers=16) as ex:
        reals = list(ex.map(lambda c: cli_agrees_with_spec(list(c16k.IO_ARGS[c[2]]), c[1], None, c[0]), cells))
    for (sc, outk, ai), real in zip(cells, reals):
        inproc = c16k.check(list(c16k.IO_ARGS[ai]), outk, None, sc)
        n += 1
        if inproc != real:
            rep.harness_error("stubbed run and real CLI disagree on file %d, output kind %d, args %r: stub says %s, real CLI says %s" % (sc, outk, c16k.IO_ARGS[ai], inproc, real))
    return n


def run(tier):
    rep = common.Report("C16", tier, "other")
    known = common.Known("C16")
    common.import_repo()
    c16k.setup(len(c16k.SCRIPTS))
    nval = validate_stubs(rep)
    if rep.harness_errors:
        return rep.finish()
    P = c16k.POOL
    conds = []
    free_len = 4 if tier == "quick" else 5
    conds.append(chrun.Condition("C16:free", [("a", "str"), ("use_out", "bool")], "len(a) <= %d" % free_len, "    return c16k.k_free(a, use_out)"))
    conds.append(chrun.Condition("C16:value", [("v", "str"), ("use_out", "bool")], "len(v) <= 4", "    return c16k.k_value(v, use_out)"))
    conds.append(chrun.Condition("C16:name", [("n", "str"), ("use_out", "bool")], "len(n) <= 3", "    return c16k.k_name(n, use_out)"))
    # pool slices: one condition per name (selector slices keep pick() short)
    for ni in range(len(P["names"])):
        conds.append(
            chrun.Condition(
                "C16:pool:name=%s" % P["names"][ni],
                [("ni", "int"), ("si", "int"), ("vi", "int"), ("use_out", "bool"), ("dep", "int"), ("sc", "int")],
                "ni == %d and 0 <= si < %d and 0 <= vi < %d and 0 <= dep < %d and 0 <= sc < %d"
                % (ni, len(P["seps"]), len(P["values"]), 3 if (tier != "quick" or P["names"][ni] in c16k.OPTION_NAMES) else 1, 1 if tier == "quick" else len(c16k.SCRIPTS)),
                "    return c16k.k_pool(ni, si, vi, use_out, dep, sc)",
            )
        )
    # I/O dimension: input file kinds (ASCII, non-ASCII, BOM, CRLF, coding line) x output situations
    # (stdout, new file, existing longer file, the input file itself, under another spelling)
    nfiles = len(c16k.SCRIPTS) + len(c16k.IO_FILES)
    for sc in range(nfiles):
        conds.append(chrun.Condition("C16:io:file=%d" % sc, [("sc", "int"), ("outk", "int"), ("ai", "int")], "sc == %d and 0 <= outk < %d and 0 <= ai < %d" % (sc, len(c16k.OUT_KINDS), len(c16k.IO_ARGS)), "    return c16k.k_io(sc, outk, ai)"))
    conds.append(chrun.Condition("C16:order", [("vi", "int"), ("di", "int"), ("form", "int"), ("use_out", "bool")], "0 <= vi < 2 and 0 <= di < 2 and 0 <= form < %d" % c16k.ORDER_FORMS, "    return c16k.k_order(vi, di, form, use_out)"))
    for pi in range(len(c16k.WS_PAIRS)):
        conds.append(chrun.Condition("C16:ws:%s" % c16k.WS_PAIRS[pi][0], [("pi", "int"), ("wi", "int"), ("pos", "int"), ("use_out", "bool")], "pi == %d and 0 <= wi < %d and 0 <= pos < 4" % (pi, len(c16k.WS)), "    return c16k.k_ws(pi, wi, pos, use_out)"))
    for n1 in range(4):
        conds.append(
            chrun.Condition(
                "C16:two:first=%d" % n1,
                [("n1", "int"), ("v1", "int"), ("n2", "int"), ("v2", "int"), ("use_out", "bool")],
                "n1 == %d and 0 <= n2 < 4 and 0 <= v1 < %d and 0 <= v2 < %d" % (n1, len(P["values"]), len(P["values"])),
                "    return c16k.k_two(n1, v1, n2, v2, use_out)",
            )
        )
    with common.Workdir("c16") as wd:
        chrun.precompile_repo(wd, common.REPO)
        prelude = "from vf.kernels import c16k\nc16k.setup(%d)\n" % len(c16k.SCRIPTS)
        results, counts, st = chrun.check_conditions(conds, prelude, wd, per_cond_timeout=200 if tier == "quick" else 900, batch=1, jobs=16, label="cli", models=("hasattr",))
    discharged = 0
    inconclusive = []
    rows = []
    for cid, (verdict, info) in sorted(results.items()):
        rows.append({"condition": cid, "verdict": verdict})
        if verdict == "confirmed":
            discharged += 1
        elif verdict == "cex":
            args = (info or {}).get("args")
            rec = concretise(cid, args)
            if rec is None:
                inconclusive.append(cid)
                continue
            ok = cli_agrees_with_spec(rec["c_args"], rec["use_out"], rec["dep"], rec["si"], rec.get("argv"))
            if ok:
                rep.note("counterexample of %s did not reproduce on the real CLI: %r" % (cid, rec))
                inconclusive.append(cid)
                continue
            desc = "C16:args=%r" % (rec.get("argv") or rec["c_args"],) + ("" if isinstance(rec["use_out"], bool) else ":out=%d:file=%d" % (rec["use_out"], rec["si"]))
            if known.match(desc, None, None, "cli-diff"):
                continue
            rec.update({"property": "C16", "kind": "c16", "descriptor": desc, "divergence": "cli-diff", "what": ("python -m oneliner %s violates the CLI specification" % " ".join(rec["argv"])) if rec.get("argv") else "python -m oneliner in.py %s%s%s violates the CLI specification" % (" ".join("-C %r" % a for a in rec["c_args"]), " --unparser %s" % rec["dep"] if rec["dep"] else "", (" -o %s" % c16k.out_name(int(rec["use_out"]))) if rec["use_out"] else "") + ("" if rec["si"] < len(c16k.SCRIPTS) else " [input file kind %d: %s]" % (rec["si"], ["non-ASCII", "UTF-8 BOM", "CRLF, no trailing newline", "latin-1 coding line", "larger than one I/O buffer"][rec["si"] - len(c16k.SCRIPTS)]))})
            rep.violation(rec)
        else:
            inconclusive.append(cid)
    for e in known.entries:
        rep.known("%s: %s" % (e["id"], e["what"]))
    cov = rep.coverage
    cov["explanation"] = "E1 on the real oneliner/__main__.py executed in-process with stubs for parse_args/open/print: free symbolic -C arguments (every string of <= %d characters; 'expr_wrapper=' + every value of <= 4 characters; every name of <= 3 characters + '=list') and selector slices over pools derived from the real options object (names x separators x values x {-o, stdout} x deprecated --unparser x script; pairs of -C options; input file kinds x output situations incl. -o naming the input file or an existing longer file); reference: a CLI specification written without str.split; output compared (alpha-normalised) with the library call" % free_len
    cov["obligations"] = len(conds)
    cov["discharged"] = discharged
    cov["inconclusive"] = inconclusive
    cov["conditions"] = rows[:60]
    cov["pools"] = {"names": len(P["names"]), "seps": P["seps"], "values": P["values"]}
    cov["stub_validation_cases"] = nval
    cov["solver_cpu_s"] = st["solver_cpu_s"]
    cov["evaluations"] = len(conds)
    cov["distinct_nontrivial"] = discharged
    cov["samples"] = rows[:5]
    cov["functions_encoded"] = ["oneliner/__main__.py (module body)", "oneliner.config.Configs / Cfg.__set__ (option validation)", "oneliner.convert_code_string (called concretely through a realising wrapper)"]
    rep.assumptions += ["stubs: argparse.ArgumentParser.parse_args (returns the prepared namespace), open and tokenize.open (in-memory FS holding bytes, with the truncate/append/in-place semantics of the open modes, recording every open), print (recording), oneliner.convert_code_string (realises the option values and calls the real function untraced)", "stub fidelity validated on %d command lines against the real CLI in subprocesses; every counterexample is replayed on the real CLI" % nval, "argparse's own tokenisation of the command line is outside the claim"]
    return rep.finish()


def concretise(cid, args):
    if not args:
        return None
    P = c16k.POOL
    if cid == "C16:free":
        return {"c_args": [args["a"]], "use_out": bool(args["use_out"]), "dep": None, "si": 0}
    if cid == "C16:value":
        return {"c_args": ["expr_wrapper=" + args["v"]], "use_out": bool(args["use_out"]), "dep": None, "si": 0}
    if cid == "C16:name":
        return {"c_args": [args["n"] + "=list"], "use_out": bool(args["use_out"]), "dep": None, "si": 0}
    if cid.startswith("C16:pool:"):
        a = P["names"][args["ni"]] + P["seps"][args["si"]] + P["values"][args["vi"]]
        return {"c_args": [a], "use_out": bool(args["use_out"]), "dep": [None, "ast.unparse", "oneliner"][args["dep"]], "si": args["sc"]}
    if cid == "C16:order":
        argv, cs, dep = c16k.order_argv(args["vi"], args["di"], args["form"], bool(args["use_out"]))
        return {"c_args": cs, "use_out": bool(args["use_out"]), "dep": dep, "si": 1, "argv": argv}
    if cid.startswith("C16:ws:"):
        return {"c_args": [c16k.ws_arg(args["pi"], args["wi"], args["pos"])], "use_out": bool(args["use_out"]), "dep": None, "si": 0}
    if cid.startswith("C16:io:"):
        return {"c_args": list(c16k.IO_ARGS[args["ai"]]), "use_out": int(args["outk"]), "dep": None, "si": int(args["sc"])}
    if cid.startswith("C16:two:"):
        names = c16k.OPTION_NAMES + ["x"]
        return {"c_args": [names[args["n1"]] + "=" + P["values"][args["v1"]], names[args["n2"]] + "=" + P["values"][args["v2"]]], "use_out": bool(args["use_out"]), "dep": None, "si": 1}
    return None


def replay(rec):
    common.import_repo()
    c16k.setup(len(c16k.SCRIPTS))
    ok = cli_agrees_with_spec(rec["c_args"], rec["use_out"], rec["dep"], rec["si"], rec.get("argv"))
    return {"reproduced": not ok, "divergence": "cli-diff"}
