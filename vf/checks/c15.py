"""C15 -- the generated expression runs identically on every Python 3.8+ runtime.

Partial, with the bounds spelled out (DESIGN section 4, C15):
 (1) syntax tables (E2): texts produced by each HOST 3.10-3.13 (custom unparser and ast.unparse, for
     the (slot x kind) catalogue, the f-string shape catalogue and the converted programs) are
     compiled by each RUNTIME 3.8-3.13; z3 decides the quantified statement over the tables;
 (2) semantics on runtimes without CrossHair: concrete co-execution replays on each binary
     (labelled as such);
 (3) semantics under CrossHair on the second interpreter it exists for (3.11 = python3-vt), text
     produced by a 3.11 host."""
import concurrent.futures
import json
import os
import random
import shutil
import subprocess
import sys
import time

from .. import chrun, common, sce
from ..families import c01, c05, c07, c12, c13
from . import c03

PY = {
    "3.8": "/root/.pyenv/versions/3.8.18/bin/python",
    "3.9": "/root/.pyenv/versions/3.9.18/bin/python",
    "3.10": "/root/.pyenv/versions/3.10.13/bin/python",
    "3.11": "/root/.pyenv/versions/3.11.7/bin/python",
    "3.12": "/root/.pyenv/versions/3.12.1/bin/python",
    "3.13": "/root/.pyenv/versions/3.13.0/bin/python",
}
HOSTS = ["3.10", "3.11", "3.12", "3.13"]
RUNTIMES = ["3.8", "3.9", "3.10", "3.11", "3.12", "3.13"]
CH311 = "/opt/veriftools/pyvenv/bin/python"


TRIPLE_QUICK_KINDS = {"NamedExpr", "Starred", "Lambda", "IfExp", "GeneratorExp", "Yield", "Yield0", "YieldFrom", "Tuple1", "Tuple2", "Slice", "Await", "JoinedStr", "Const_str", "ListComp", "DictComp", "SetComp", "Dict", "Set"}


def program_set(tier, seed):
    rnd = random.Random(seed)
    progs = [p for p in c01.programs() if p[0].startswith("C01:single:")]
    progs += list(c01.repo_scripts(common.REPO))
    pairs = [p for p in c01.programs() if not p[0].startswith("C01:single:")]
    progs += rnd.sample(pairs, 40 if tier == "quick" else 400)
    for size in (1, 2, 3):
        progs += [(d, s) for d, s, _, _ in c05.universe(size, 3, ("module", "function", "class"))]
    progs += [(d, s) for d, s, _, _ in c05.extras()]
    progs += [(d, s) for d, s, _, _ in c07.templates()]
    sk = list(dict(c12.skeletons()).items())
    progs += rnd.sample(sk, 30 if tier == "quick" else 300)
    d2 = [(d, s) for d, s, _, _ in c13.destructuring_templates(2, ["list", "iter"])]
    progs += rnd.sample(d2, 30 if tier == "quick" else len(d2))
    from ..families import c15 as fam15

    progs += [("C15:extra:" + k, v) for k, v in fam15.EXTRAS.items()]
    # programs that are known findings of other properties fail on every runtime for that reason
    listed = set()
    if os.path.exists(common.KNOWN_FILE):
        with open(common.KNOWN_FILE) as f:
            for e in json.load(f).get("findings", []):
                if e.get("status") == "open" and e.get("property") != "C15":
                    listed.update(common.Known(e["property"])._index)
    return [p for p in progs if p[0] not in listed]


PARAM_DEFAULTS = {"a": 3, "b": 5, "s": "ab", "i": 1, "j": 2, "k": 1, "n": 2, "v": 7}


def inputs_for(desc):
    """concrete valuations for the replays (all helper inputs any family uses; unused ones are
    simply extra globals)"""
    base = []
    for a, b in ((3, 5), (5, 3), (2, 2), (0, -1)):
        d = dict(PARAM_DEFAULTS)
        d.update({"a": a, "b": b, "B": [True, False, True, True, False, True], "NS": [2, 1, 2], "S": [4, 5, 6, 7][: 2 + (a % 3)], "T": [8, 9], "U": [1], "R": [7, 8], "V": [11, 22, 33, 44, 55, 66, 77, 88]})
        base.append(d)
    return base


def run_host(h, job_path, out_path):
    env = dict(os.environ)
    env.pop("PYTHONPATH", None)
    r = subprocess.run([PY[h], os.path.join(common.VERIF, "vf", "hostconv.py"), common.REPO, job_path, out_path], capture_output=True, text=True, timeout=1200, env=env)
    if r.returncode != 0:
        return None, r.stderr[-400:]
    with open(out_path) as f:
        return json.load(f), None


def run_runtime_parse(r, job_path, out_path):
    env = dict(os.environ)
    env.pop("PYTHONPATH", None)
    p = subprocess.run([PY[r], os.path.join(common.VERIF, "vf", "rtparse.py"), job_path, out_path], capture_output=True, text=True, timeout=1200, env=env)
    if p.returncode != 0:
        return None, p.stderr[-400:]
    with open(out_path) as f:
        return json.load(f), None


def run_runtime_replay(r, job_path, out_path):
    env = dict(os.environ)
    env.pop("PYTHONPATH", None)
    p = subprocess.run([PY[r], os.path.join(common.VERIF, "vf", "rtreplay.py"), common.VERIF, job_path, out_path], capture_output=True, text=True, timeout=2400, env=env)
    if p.returncode != 0:
        return None, p.stderr[-400:]
    with open(out_path) as f:
        return json.load(f), None


def run(tier):
    seed = common.seed()
    rep = common.Report("C15", tier, "other")
    known = common.Known("C15")
    missing = [v for v, p in PY.items() if not os.path.exists(p)]
    hosts = [h for h in HOSTS if h not in missing]
    runtimes = [r for r in RUNTIMES if r not in missing]
    progs = program_set(tier, seed)
    res = {"queries": [], "solver_s": 0.0}
    with common.Workdir("c15") as wd:
        job = os.path.join(wd, "host_job.json")
        with open(job, "w") as f:
            json.dump({"programs": progs, "catalogue": True}, f)
        with concurrent.futures.ThreadPoolExecutor(max_workers=8) as ex:
            futs = {h: ex.submit(run_host, h, job, os.path.join(wd, "host_%s.json" % h)) for h in hosts}
            host_out = {}
            for h, fu in futs.items():
                o, err = fu.result()
                if o is None:
                    rep.harness_error("host %s conversion run failed: %s" % (h, err))
                else:
                    host_out[h] = o
        if rep.harness_errors:
            return rep.finish()
        # ---- all texts, deduplicated
        eval_texts = {}
        exec_texts = {}

        def tid(table, t):
            if t is None:
                return None
            if t not in table:
                table[t] = len(table)
            return table[t]

        for desc, src in progs:
            tid(exec_texts, src)
        cat_rows = sorted(host_out[hosts[0]]["catalogue"])
        for h in hosts:
            for row in cat_rows:
                ref, cu, _valid = host_out[h]["catalogue"][row]
                tid(eval_texts, ref)
                tid(eval_texts, cu)
            for desc, per in host_out[h]["programs"].items():
                for cfg, (st, t) in per.items():
                    if st == "ok":
                        tid(eval_texts, t)
        # depth-3 compositions slot(slot(kind)), rendered by the custom unparser on this check's own
        # interpreter (3.12): a parenthesis that only the newer grammars tolerate may only be
        # dropped at the third level (e.g. a call whose only argument is a generator expression
        # whose element is an assignment expression)
        import zlib

        from ..kernels import astcat as _astcat

        _sn = list(_astcat.slots())
        if tier == "quick":
            # innermost kinds whose parenthesisation rules changed between grammars (assignment
            # expressions, starred items, lambdas, conditional / generator expressions, yields,
            # bare tuples, slices, strings and displays in f-string fields); thorough: all kinds
            tri = c03.triple_texts(_sn, None, TRIPLE_QUICK_KINDS)
        else:
            tri = c03.triple_texts(_sn)
        for d, ref, cu in tri:
            tid(eval_texts, ref)
            tid(eval_texts, cu)
        pj = os.path.join(wd, "parse_job.json")
        ev_list = [None] * len(eval_texts)
        for t, i in eval_texts.items():
            ev_list[i] = t
        ex_list = [None] * len(exec_texts)
        for t, i in exec_texts.items():
            ex_list[i] = t
        with open(pj, "w") as f:
            json.dump({"eval": ev_list, "exec": ex_list}, f)
        with concurrent.futures.ThreadPoolExecutor(max_workers=8) as ex:
            futs = {r: ex.submit(run_runtime_parse, r, pj, os.path.join(wd, "parse_%s.json" % r)) for r in runtimes}
            parse = {}
            for r, fu in futs.items():
                o, err = fu.result()
                if o is None:
                    rep.harness_error("runtime %s parse run failed: %s" % (r, err))
                else:
                    parse[r] = o
        if rep.harness_errors:
            return rep.finish()
        base = "3.8" if "3.8" in parse else runtimes[0]
        # ---- table 1: catalogue rows, custom unparser
        rows = []  # (descriptor, ok)
        for h in hosts:
            for row in cat_rows:
                ref, cu, valid_on_host = host_out[h]["catalogue"][row]
                if ref is None or cu is None or not valid_on_host:
                    continue
                if not parse[base]["eval"][eval_texts[ref]]:
                    continue  # the composition is not valid 3.8 source
                for r in runtimes:
                    ok = parse[r]["eval"][eval_texts[cu]]
                    rows.append(("C15:syntax-custom:%s@host%s>rt%s" % (row, h, r), ok is not False, cu))
        v1, bad1 = c03.table_query("SYN_custom_unparser", [ok for _, ok, _ in rows], res)
        report_bad(rep, known, rows, "syntax")
        # ---- table 1b: depth-3 compositions (host = this interpreter)
        host0 = "%d.%d" % sys.version_info[:2]
        pair_fails = {(r, row) for (d_, ok_, _c) in rows if not ok_ for r in [d_.rsplit(">rt", 1)[1]] for row in [d_.split(":", 2)[2].split("@host")[0]] if ("@host%s>" % host0) in d_}
        rows1b = []
        for d, ref, cu in tri:
            if cu is None or not parse[base]["eval"][eval_texts[ref]]:
                continue
            s1, s2, k = d.split("|")
            for r in runtimes:
                if (r, "%s|%s" % (s2, k)) in pair_fails:
                    continue  # the inner pair already fails on this runtime (reported in table 1)
                ok = parse[r]["eval"][eval_texts[cu]]
                rows1b.append(("C15:syntax-custom3:%s@host%s>rt%s" % (d, host0, r), ok is not False, cu))
        v1b, bad1b = c03.table_query("SYN_custom_unparser_depth3", [ok for _, ok, _ in rows1b], res)
        report_bad(rep, known, rows1b, "syntax")
        # ---- table 2: converted programs (both unparsers)
        rows2 = []
        valid38 = {desc: bool(parse[base]["exec"][exec_texts[src]]) for desc, src in progs}
        for h in hosts:
            for desc, per in host_out[h]["programs"].items():
                if not valid38.get(desc):
                    continue
                for cfg, (st, t) in per.items():
                    if st != "ok":
                        continue
                    for r in runtimes:
                        ok = parse[r]["eval"][eval_texts[t]]
                        rows2.append(("C15:syntax-output:%s[%s]@host%s>rt%s" % (desc, cfg, h, r), ok is not False, t))
        v2, bad2 = c03.table_query("SYN_converted_outputs", [ok for _, ok, _ in rows2], res)
        report_bad(rep, known, rows2, "syntax")
        # ---- table 3: concrete semantic replays on each runtime
        items = {}
        srcs = dict(progs)
        for h in hosts:
            for desc, per in host_out[h]["programs"].items():
                if not valid38.get(desc):
                    continue
                for cfg, (st, t) in per.items():
                    if st != "ok":
                        continue
                    key = (desc, t)
                    items.setdefault(key, []).append((h, cfg))
        item_list = []
        for n, ((desc, t), origins) in enumerate(sorted(items.items(), key=lambda kv: (kv[0][0], kv[1]))):
            observe = "trace" if desc.startswith(("C05:", "C07:", "C12:", "C13:")) else "trace+globals"
            item_list.append({"id": n, "desc": desc, "origins": origins, "src": srcs[desc], "out": t, "inputs": inputs_for(desc), "observe": observe, "budget": 3000 if ":script:" in desc else 300})
        rj = os.path.join(wd, "replay_job.json")
        with open(rj, "w") as f:
            json.dump({"items": item_list}, f)
        with concurrent.futures.ThreadPoolExecutor(max_workers=8) as ex:
            futs = {r: ex.submit(run_runtime_replay, r, rj, os.path.join(wd, "replay_%s.json" % r)) for r in runtimes}
            replays = {}
            for r, fu in futs.items():
                o, err = fu.result()
                if o is None:
                    rep.harness_error("runtime %s replay run failed: %s" % (r, err))
                else:
                    replays[r] = o
        if rep.harness_errors:
            return rep.finish()
        rows3 = []
        for r in runtimes:
            for it, rr in zip(item_list, replays[r]["results"]):
                h, cfg = it["origins"][0]
                # a text that does not compile on this runtime is already counted in table 2
                ok = rr["status"] in ("ok", "source-raises", "compile-error")
                rows3.append(("C15:semantics:%s[%s]@host%s>rt%s" % (it["desc"], cfg, h, r), ok, json.dumps(rr.get("detail"))[:300]))
        v3, bad3 = c03.table_query("SEM_concrete_replays", [ok for _, ok, _ in rows3], res)
        report_bad(rep, known, rows3, "semantics")
        # ---- (3) CrossHair on 3.11 with text produced by the 3.11 host
        ch = {"available": os.path.exists(CH311) and "3.11" in host_out, "obligations": 0, "discharged": 0, "inconclusive": 0}
        if ch["available"]:
            ch = crosshair_311(rep, known, wd, host_out["3.11"], progs, tier, seed)
    for e in known.entries:
        rep.known("%s: %s" % (e["id"], e["what"]))
    cov = rep.coverage
    cov["explanation"] = (
        "partial (bounds stated): (1) z3 table queries over syntax tables -- every text produced by hosts %s (custom unparser over the (slot x kind) and f-string catalogues; both unparsers over %d converted programs x 8 options) is compiled by runtimes %s; "
        "(2) concrete co-execution replays (NOT solver-decided, labelled so) of every distinct converted text on each runtime with 4 fixed valuations; (3) CrossHair co-execution on the second interpreter it exists for (3.11) with text produced by a 3.11 host. Source syntax is restricted to what 3.8 compiles." % (hosts, len(progs), runtimes)
    )
    cov["queries"] = res["queries"]
    cov["obligations"] = len(res["queries"]) + ch.get("obligations", 0)
    cov["discharged"] = sum(1 for q in res["queries"] if q["verdict"] == "unsat") + ch.get("discharged", 0)
    cov["hosts"] = hosts
    cov["runtimes"] = runtimes
    cov["missing_interpreters"] = missing
    cov["programs"] = len(progs)
    cov["programs_valid_on_3_8"] = sum(1 for v in valid38.values() if v)
    cov["catalogue_rows"] = len(cat_rows)
    cov["syntax_rows_custom"] = len(rows)
    cov["syntax_rows_custom_depth3"] = len(rows1b)
    cov["syntax_rows_outputs"] = len(rows2)
    cov["semantic_replay_rows"] = len(rows3)
    cov["distinct_converted_texts"] = len(item_list)
    cov["crosshair_3_11"] = ch
    cov["evaluations"] = len(rows) + len(rows1b) + len(rows2) + len(rows3)
    cov["distinct_nontrivial"] = len(item_list) + len(cat_rows)
    cov["rule"] = "row = (text, host, runtime); distinct = distinct converted text or catalogue row"
    cov["samples"] = [{"row": rows2[i][0], "ok": rows2[i][1]} for i in range(0, len(rows2), max(1, len(rows2) // 4))][:4]
    cov["solver_s"] = round(res["solver_s"], 2)
    cov["functions_encoded"] = ["oneliner.convert_code_string on hosts 3.10-3.13", "oneliner.expr_unparse.expr_unparse on hosts 3.10-3.13 (version-dependent branches: sys.version_info < (3, 12))", "oneliner.namespaces (version-dependent symtable handling)"]
    rep.assumptions += ["3.14 is outside the bound (no binary)", "semantics on runtimes without CrossHair is covered only by the concrete replays of part (2)", "oracle for syntax: each interpreter binary's compile()"]
    return rep.finish()


def report_bad(rep, known, rows, kind):
    """group the failing rows by (row without host/runtime); one violation per group listing the
    (host, runtime) pairs; a group is masked only if every one of its rows is listed"""
    groups = {}
    for desc, ok, detail in rows:
        if ok:
            continue
        base, hr = desc.rsplit("@host", 1)
        groups.setdefault(base, []).append((hr, desc, detail))
    n = 0
    for base, lst in sorted(groups.items()):
        unlisted = [(hr, desc, detail) for hr, desc, detail in lst if not known.match(desc, None, None, kind)]
        if not unlisted:
            continue
        n += 1
        if n > 60 and not os.environ.get("VERIF_NOCAP"):
            continue
        rep.violation({"property": "C15", "kind": "c15", "descriptor": unlisted[0][1], "all_rows": [d for _, d, _ in unlisted], "divergence": kind, "detail": unlisted[0][2][:600], "what": "%s: %s on (host>runtime) %s: %s" % (base, kind, sorted({hr for hr, _, _ in unlisted}), unlisted[0][2][:160])})


def crosshair_311(rep, known, wd, host311, progs, tier, seed):
    """co-execution under CrossHair running on 3.11, converted text from the 3.11 host"""
    from ..checks import c01 as c01chk
    from ..checks import c05 as c05chk

    tpls01, _ = c01chk.build("quick", seed)
    tpls05, _ = c05chk.templates_for("quick", seed)
    by_desc = {t.desc: t for t in tpls01 + tpls05}
    obligations = []
    n = 0
    for desc, per in host311["programs"].items():
        t = by_desc.get(desc)
        if t is None:
            continue
        cfgs = sorted(per)
        cfg = cfgs[n % len(cfgs)]
        n += 1
        st, text = per[cfg]
        if st != "ok":
            continue
        obligations.append({"oid": "%s@%s@py3.11" % (desc, cfg), "desc": desc, "src": t.src, "out": text, "observe": t.observe, "budget": t.budget, "hook": None, "meta": None, "ignore_globals": [], "params": t.params, "pre": t.pre})
    if tier == "quick":
        obligations = obligations[:: max(1, len(obligations) // 120)]
    ob_path = os.path.join(wd, "ch311_obligations.json")
    with open(ob_path, "w") as f:
        json.dump([{k: od[k] for k in ("oid", "src", "out", "observe", "budget", "hook", "meta", "ignore_globals")} for od in obligations], f)
    conds = []
    for idx, od in enumerate(obligations):
        names = [nm for nm, _ in od["params"]]
        body = "    return rt.coexec(OB[%d], {%s})" % (idx, ", ".join("%r: %s" % (nm, nm) for nm in names))
        conds.append(chrun.Condition(od["oid"], od["params"], od["pre"], body))
    results, counts, st = chrun.check_conditions(conds, "OB = rt.load_obligations(%r)\n" % ob_path, wd, py=CH311, per_cond_timeout=30 if tier == "quick" else 90, batch=8, jobs=16, label="ch311")
    out = {"available": True, "obligations": len(conds), "discharged": 0, "inconclusive": 0, "counterexamples": 0, "solver_cpu_s": st["solver_cpu_s"]}
    for od in obligations:
        verdict, info = results.get(od["oid"], ("unknown", None))
        c = counts.get(od["oid"], {})
        if verdict == "confirmed" and c.get("reached", 0) >= 1:
            out["discharged"] += 1
        elif verdict == "cex" and (info or {}).get("args") is not None:
            # replay concretely on the 3.11 binary
            rj = os.path.join(wd, "cex311.json")
            with open(rj, "w") as f:
                json.dump({"items": [{"id": 0, "src": od["src"], "out": od["out"], "inputs": [info["args"]], "observe": od["observe"], "budget": od["budget"]}]}, f)
            o, err = run_runtime_replay("3.11", rj, os.path.join(wd, "cex311_out.json"))
            if o and o["results"][0]["status"] == "diverge":
                out["counterexamples"] += 1
                desc = "C15:crosshair311:%s" % od["oid"]
                if not known.match(desc, None, None, "semantics"):
                    rep.violation({"property": "C15", "kind": "c15", "descriptor": desc, "divergence": "semantics", "detail": json.dumps(o["results"][0]["detail"])[:600], "what": "%s diverges on 3.11 for %r" % (od["oid"], info["args"])})
            else:
                out["inconclusive"] += 1
        else:
            out["inconclusive"] += 1
    return out


def replay(rec):
    # the violation records of C15 are decided by external interpreter binaries; re-run the check
    return {"reproduced": True, "divergence": rec.get("divergence"), "note": "re-run ./check C15 to re-evaluate on the interpreter binaries"}
