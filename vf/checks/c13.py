"""C13 -- assignment, destructuring and augmented assignment store what Python stores.
Engine: symbolic co-execution with symbolic source length/elements, symbolic slice bounds and
symbolic operands."""
import random

from .. import common, sce
from ..families import c13 as fam
from .c05 import merge


def build(tier, seed):
    rnd = random.Random(seed)
    d2 = list(fam.destructuring_templates(2, fam.SRC_KINDS))
    d3 = [d for d in fam.destructuring_templates(3, ["list", "iter", "gen"]) if d[0] not in {x[0] for x in d2}]
    stores = list(fam.slice_store_templates())
    cells = list(fam.aug_cells())
    if tier == "quick":
        # chained-assignment mixes: a seed-rotated third in the quick tier
        mix = [x for x in stores if ":chainmix:" in x[0]]
        stores = [x for x in stores if ":chainmix:" not in x[0]] + rnd.sample(mix, len(mix) // 3)
        chosen = stores + rnd.sample(d2, 70) + rnd.sample(d3, 30) + cells
    else:
        chosen = stores + d2 + d3 + cells
    note = {"destructuring_depth2": len(d2), "destructuring_depth3": len(d3), "stores": len(stores), "aug_cells": len(cells), "chosen": len(chosen)}
    tpls = []
    for k, (desc, src, params, pre) in enumerate(chosen):
        t = sce.Template(desc, src, params, pre, observe="trace", budget=200)
        if tier == "quick" or desc.startswith("C13:aug:"):
            if tier == "quick":
                t.sem_configs = [common.SEM_CONFIGS[(k + seed) % 4]]
            else:
                # the aug-assign lowering does not depend on if_style; wrapper matters for functions
                t.sem_configs = [common.SEM_CONFIGS[0], common.SEM_CONFIGS[3]]
        tpls.append(t)
    return tpls, note


def run(tier):
    seed = common.seed()
    rep = common.Report("C13", tier, "translation_validation")
    known = common.Known("C13")
    tpls, note = build(tier, seed)
    with common.Workdir("c13") as wd:
        d = sce.Driver(rep, known, wd, tier, per_cond_timeout=20 if tier == "quick" else 60)
        d.run(tpls)
        agg = merge(None, d)
        sce.report_known(d, rep, known)
    st = agg["stats"]
    cov = rep.coverage
    cov.update(st)
    cov["samples"] = agg["samples"][:4]
    cov["universe"] = note
    cov["inconclusive_obligations"] = agg["inconclusive"][:50]
    cov["masked_templates_count"] = len(set(agg["masked"]))
    cov["functions_encoded"] = [
        "oneliner.convert_code_string (concrete, every template x configuration)",
        "converted text (symbolic): lowering by PendingAssign.assign_tuple_list/assign_subscript/assign_attribute/assign_name, PendingAugAssign._aug_assign_expr, utils.convert_slice, Namespace*.get_assign",
    ]
    cov["bounds"] = "patterns depth <= 3, arity <= 3 (nested <= 2), <= 6 leaves; source length min..min+3 (nested min..min+2); ints unbounded unless the operator needs a bound (pow, shifts); slice bounds -5..5, step -2..2; strings <= 2 chars"
    cov["explanation"] = "one PEP-316 condition per (template, configuration); CrossHair/z3 decide equality of the logged values, aliases ('is'), dunder-call order and load/store counts for every source length/element/operand value inside the bounds"
    rep.assumptions += [
        "helpers injected on both sides: log, Box (logging container), UV/UPlain (operand classes whose dunders log their calls)",
        "inputs for which the source raises (wrong length, division by zero, unsupported operand) are outside the fragment",
    ]
    return rep.finish()
