"""C02 -- accepted input always yields one well-formed single-line expression.

Program-quantified, no data dimension: the deciding step of each table entry is CPython's own
compiler; z3 decides the quantified statement over the table (exists program, configuration:
conversion returned and the text is not a single-line expression).  The line-break obligation on
the custom unparser for all strings is the C04 kernel (every code point, every literal position)."""
import ast
import random
import symtable
import time
import warnings

from .. import common
from ..families import c01, c02 as fam, c05, c06, c07, c12, c13
from ..kernels import astcat
from . import c03


def family_programs(tier, seed):
    rnd = random.Random(seed)
    progs = []
    cat = list(c01.programs())
    progs += [p for p in cat if p[0].startswith("C01:single:")]
    progs += rnd.sample([p for p in cat if not p[0].startswith("C01:single:")], 100 if tier == "quick" else 1200)
    progs += list(c01.repo_scripts(common.REPO))
    for size in (1, 2, 3):
        progs += [(d, s) for d, s, _, _ in c05.universe(size, 3, ("module", "function", "class"))]
    u4 = [(d, s) for d, s, _, _ in c05.universe(4, 3, ("module", "function", "class"))]
    progs += rnd.sample(u4, 150) if tier == "quick" else u4
    progs += [(d, s) for d, s, _, _ in c05.extras()]
    progs += [(d, s) for d, s, _, _ in c07.templates()]
    sk = list(dict(c12.skeletons()).items())
    progs += rnd.sample(sk, 60) if tier == "quick" else sk
    cells = [(d, s) for d, s, _, _ in c13.aug_cells()]
    progs += rnd.sample(cells, 100) if tier == "quick" else cells
    d2 = [(d, s) for d, s, _, _ in c13.destructuring_templates(2, c13.SRC_KINDS)]
    progs += rnd.sample(d2, 60) if tier == "quick" else d2
    ch = [c for c in c06.chains(2)]
    for mrole, children in (rnd.sample(ch, 300) if tier == "quick" else rnd.sample(ch, 4000)):
        src, ns = c06.render(mrole, children)
        try:
            compile(src, "<s>", "exec")
        except SyntaxError:
            continue
        progs.append((c06.desc(mrole, children).replace("C06:", "C02:scope:"), src))
    return progs


def check_program(ol, desc, src):
    """returns list of (config, status, detail); status in ok / rejected / line-break /
    not-expression / unparse-changed-tree"""
    from oneliner.config import Configs
    from oneliner.convert import convert

    out = []
    for w, i in common.SEM_CONFIGS:
        for u in common.UNPARSERS:
            cfg = "%s/%s/%s" % (u, w, i)
            c = Configs()
            c.unparser = u
            c.expr_wrapper = w
            c.if_style = i
            random.seed(1)
            try:
                with warnings.catch_warnings():
                    warnings.simplefilter("ignore")
                    text = ol.convert_code_string(src, configs=c)
            except RecursionError:
                out.append((cfg, "rejected", "RecursionError"))
                continue
            except Exception as e:
                out.append((cfg, "rejected", type(e).__name__))
                continue
            if "\n" in text or "\r" in text:
                out.append((cfg, "line-break", text[:200]))
                continue
            try:
                compile(text, "<converted>", "eval")
            except (SyntaxError, ValueError) as e:
                out.append((cfg, "not-expression", "%s: %s" % (type(e).__name__, str(e)[:80])))
                continue
            except RecursionError:
                out.append((cfg, "ok", "compile RecursionError (C17)"))
                continue
            if u == "ast.unparse":
                # removing "\n" from ast.unparse's text must not change the tree
                random.seed(1)
                try:
                    tree = convert(ast.parse(src), symtable.symtable(src, "<s>", "exec"), c)
                    back = ast.parse(text, mode="eval").body
                    if astcat.norm(back) != astcat.norm(tree):
                        out.append((cfg, "unparse-changed-tree", ""))
                        continue
                except RecursionError:
                    pass
            out.append((cfg, "ok", ""))
    return out


def run(tier):
    seed = common.seed()
    rep = common.Report("C02", tier, "other")
    known = common.Known("C02")
    ol = common.import_repo()
    t0 = time.time()
    progs = family_programs(tier, seed)
    progs += [("C02:shape:" + k, v) for k, v in fam.SHAPES.items()]
    slots = list(fam.slot_products())
    if tier == "quick":
        # index slots in full (small), a seed-rotated quarter of the expression-slot product
        idx = [x for x in slots if x[0].startswith("C02:index:")]
        ex = [x for x in slots if not x[0].startswith("C02:index:")]
        slots = idx + random.Random(seed).sample(ex, len(ex) // 4)
    progs += slots
    idents = list(fam.ident_products())
    progs += idents
    progs += fam.stdlib_modules(25 if tier == "quick" else 200, 25000 if tier == "quick" else 80000)
    table = []  # (desc, cfg, returned, wellformed, status, detail)
    refused = list(fam.compile_refused())
    progs += refused
    refused_ids = {d for d, _ in refused}
    for desc, src in progs:
        if desc not in refused_ids:
            try:
                compile(src, "<s>", "exec")
            except SyntaxError:
                continue
        for cfg, status, detail in check_program(ol, desc, src):
            table.append((desc, cfg, status != "rejected", status in ("ok", "rejected"), status, detail, src))
    t_tab = time.time() - t0
    res = {"queries": [], "solver_s": 0.0}
    verdict, bad = c03.table_query("W_wellformed", [w for (_, _, _, w, _, _, _) in table], res)
    masked = 0
    seen = set()
    for i in bad_all(table):
        desc, cfg, returned, well, status, detail, src = table[i]
        if known.match(desc, cfg, None, status):
            masked += 1
            continue
        if (desc, status) in seen:
            continue
        seen.add((desc, status))
        rep.violation({"property": "C02", "kind": "c02", "descriptor": desc, "configs": [cfg], "src": src, "divergence": status, "detail": detail, "what": "%s [%s] %s %s" % (desc, cfg, status, detail)})
    for e in known.entries:
        mi = e.get("minimal_input")
        still = None
        if mi is not None:
            still = any(st not in ("ok", "rejected") for _, st, _ in check_program(ol, e["id"], mi))
        if still is False:
            rep.note("known finding %s: minimal input no longer fails" % e["id"])
        else:
            rep.known("%s: %s" % (e["id"], e["what"]))
    nprog = len({d for d, *_ in table})
    cov = rep.coverage
    cov["explanation"] = (
        "program-quantified obligation without a data dimension: for %d programs x 8 option combinations the REAL convert_code_string is run; when it returns, the text must contain no line break, "
        "compile in eval mode, and (ast.unparse path) parse back to the emitted AST after the removal of '\\n'. The deciding step of each table entry is CPython's compiler; z3 decides the quantified "
        "statement over the table (W_wellformed). The line-break obligation for arbitrary string contents under the custom unparser is discharged by the C04 kernels (all code points)." % nprog
    )
    cov["programs"] = nprog
    cov["parse_ok_compile_refused_programs"] = len(refused)
    cov["identifier_product"] = {"slots": len(fam.IDENT_SLOTS), "spellings": sorted(fam.IDENT_SPELLINGS), "placements": list(fam.SLOT_PLACEMENTS), "programs_in_this_run": sum(1 for d, *_ in table if d.startswith("C02:ident:")) // 8}
    cov["slot_product"] = {"expression_slots": len(fam.EXPR_SLOTS), "expression_fillers": len(fam.EXPR_FILLERS), "index_slots": len(fam.INDEX_SLOTS), "index_fillers": len(fam.INDEX_FILLERS), "placements": list(fam.SLOT_PLACEMENTS), "programs_in_this_run": sum(1 for d, *_ in table if d.startswith(("C02:slot:", "C02:index:"))) // 8}
    cov["evaluations"] = len(table)
    cov["distinct_nontrivial"] = sum(1 for t in table if t[2])
    cov["rule"] = "one row per (program, option combination); non-trivial = conversion returned (a rejection with an exception is allowed by the property)"
    cov["rejected_rows"] = sum(1 for t in table if not t[2])
    cov["status_counts"] = {s: sum(1 for t in table if t[4] == s) for s in sorted({t[4] for t in table})}
    cov["masked_rows"] = masked
    cov["queries"] = res["queries"]
    cov["obligations"] = 1
    cov["discharged"] = 1 if not rep.violations and verdict in ("unsat", "sat") else 0
    cov["samples"] = [{"program": table[i][0], "config": table[i][1], "status": table[i][4]} for i in range(0, len(table), max(1, len(table) // 5))][:5]
    cov["table_build_s"] = round(t_tab, 1)
    cov["functions_encoded"] = ["oneliner.convert_code_string (all 8 option combinations)", "oneliner.convert.convert (emitted AST, for the ast.unparse tree-identity obligation)", "oneliner.expr_unparse.expr_unparse"]
    rep.assumptions += ["oracle: CPython 3.12 compile(..., 'eval')", "standard-library modules are those of this interpreter (<= 25/80 kB), with unsupported statements, star imports and yield/await-containing statements stripped", "RecursionError while converting/compiling very large modules is C17, not C02"]
    return rep.finish()


def bad_all(table):
    return [i for i, t in enumerate(table) if not t[3]]


def replay(rec):
    ol = common.import_repo()
    r = check_program(ol, rec["descriptor"], rec["src"])
    bad = [(c, s) for c, s, _ in r if s not in ("ok", "rejected")]
    return {"reproduced": bool(bad), "divergence": bad[0][1] if bad else None, "per_config": bad[:8]}
