"""C01 -- the converted one-liner behaves exactly like the source script."""
import random

from .. import common, sce
from ..families import c01 as fam
from .c05 import merge

PARAMS = [("a", "int"), ("b", "int"), ("s", "str")]
PRE = "len(s) <= 2"


def build(tier, seed):
    rnd = random.Random(seed)
    progs = list(fam.programs())
    singles = [p for p in progs if p[0].startswith("C01:single:")]
    pairs = [p for p in progs if not p[0].startswith("C01:single:")]
    scripts = list(fam.repo_scripts(common.REPO))
    if tier == "quick":
        chosen = singles + rnd.sample(pairs, 170)
    else:
        chosen = singles + pairs
    tpls = []
    for k, (desc, src) in enumerate(scripts):
        t = sce.Template(desc, src, [], "True", observe="trace+globals", budget=3000)
        tpls.append(t)  # all 4 semantic configurations (x 2 unparsers)
    for k, (desc, src) in enumerate(chosen):
        uses_s = "s" in _names(src)
        params = [p for p in PARAMS if p[0] != "s" or uses_s]
        pre = [PRE] if uses_s else []
        # realisation-prone features get small ranges (CrossHair realises ints used as keys of a
        # real dict and values formatted into text; over an unbounded domain that never finishes)
        if "fstring" in desc:
            pre += ["0 <= a <= 3", "0 <= b <= 3"] + (["s in ('', 'a', chr(39), 'ab')"] if uses_s else [])
        if "assign_sub" in desc or "dict_set_gen" in desc:
            pre += ["-2 <= b <= 2"]
        t = sce.Template(desc, src, params, " and ".join(pre) or "True", observe="trace+globals", budget=150)
        if desc.startswith("C01:single:"):
            pass  # all 4 configurations
        elif tier == "quick":
            t.sem_configs = [common.SEM_CONFIGS[(k + seed) % 4]]
        else:
            t.sem_configs = [common.SEM_CONFIGS[k % 4], common.SEM_CONFIGS[(k + 1 + k // 4) % 4]] if (k % 4) != ((k + 1 + k // 4) % 4) else [common.SEM_CONFIGS[k % 4]]
        tpls.append(t)
    return tpls, {"features": len(fam.FEATURES), "catalogue_programs": len(progs), "repo_scripts": len(scripts), "chosen": len(chosen)}


def _names(src):
    import ast

    return {n.id for n in ast.walk(ast.parse(src)) if isinstance(n, ast.Name)}


def run(tier):
    seed = common.seed()
    rep = common.Report("C01", tier, "translation_validation")
    known = common.Known("C01")
    tpls, note = build(tier, seed)
    with common.Workdir("c01") as wd:
        d = sce.Driver(rep, known, wd, tier, per_cond_timeout=30 if tier == "quick" else 90)
        d.run(tpls)
        agg = merge(None, d)
        sce.report_known(d, rep, known)
    cov = rep.coverage
    cov.update(agg["stats"])
    cov["samples"] = agg["samples"][:3]
    cov["universe"] = note
    cov["exhaustive"] = False
    cov["inconclusive_obligations"] = agg["inconclusive"][:50]
    cov["masked_templates_count"] = len(set(agg["masked"]))
    cov["functions_encoded"] = [
        "oneliner.convert_code_string (concrete, 8 option combinations for the scripts and single features)",
        "converted text (symbolic): the whole lowering (convert.py, pending_nodes.py, namespaces.py, expr_transform.py, utils.py) and both unparsers",
    ]
    cov["bounds"] = "programs: the 16 repository scripts, 41 features alone, ordered pairs in sequence and nested pairs (quick: 170 seed-rotated pairs); inputs: a, b unbounded symbolic ints, s symbolic string of length <= 2; event budget 150"
    cov["explanation"] = "one PEP-316 condition per (program, configuration): recorded print() events and all final user globals of exec(source) and eval(converted) must coincide for every a, b, s; only __ol_* names and the helper modules itertools/importlib may be added"
    rep.assumptions += [
        "print is a recording stand-in under CrossHair (arguments canonicalised with bool/float tags so that equal records print the same text); the real print and the stdout text are used on replay",
    ]
    return rep.finish()
