"""C04 -- the custom unparser preserves literals exactly and never emits a line break.

E1: the real get_unescaped_str / expr_unparse with ONE symbolic character (every code point
0..0x10FFFF) in each literal position, decoded by a reference decoder that is itself executed
symbolically.  E2-style table queries for f-string structure and non-string constants (oracle:
CPython's parser)."""
import ast
import importlib
import itertools
import json
import os
import random
import sys
import time
import tokenize

from .. import chrun, common, rt
from ..kernels import astcat
from ..models import litmodel
from . import c03


def validate_ascii_model(rep):
    bad = 0
    pts = list(range(0, 0x300)) + list(range(0xD7F0, 0xE010)) + list(range(0xFFF0, 0x10010)) + list(range(0x10FFF0, 0x110000)) + [0x2028, 0x2029, 0x85, 0xFEFF, 0x200B, 0x1F600, 0x4F60]
    rnd = random.Random(1)
    pts += [rnd.randrange(0x110000) for _ in range(3000)]
    for o in pts:
        c = chr(o)
        if rt.py_ascii(c) != ascii(c):
            bad += 1
    for s in ["a'b", 'a"b', "a'\"b", "", "\\", "'", '"', "\n\r\t\x00\x7f\x80\xff"]:
        if rt.py_ascii(s) != ascii(s):
            bad += 1
    if bad:
        rep.harness_error("py_ascii model disagrees with builtins.ascii on %d inputs" % bad)
    return len(pts)


def stdlib_strings(limit):
    """string constants of the interpreter's own library sources (offline corpus)"""
    import sysconfig

    root = sysconfig.get_paths()["stdlib"]
    out = []
    names = sorted(f for f in os.listdir(root) if f.endswith(".py"))
    for fn in names:
        try:
            with open(os.path.join(root, fn), encoding="utf8") as f:
                tree = ast.parse(f.read())
        except Exception:
            continue
        for n in ast.walk(tree):
            if isinstance(n, ast.Constant) and isinstance(n.value, str):
                out.append(n.value)
            if len(out) >= limit:
                return out
    return out


def validate_decoder(U, rep, tier):
    """decoder(text) == value recovered by the real parser, on the unparser's OWN text"""
    rnd = random.Random(2)
    alphabet = ["a", "'", '"', "\\", "\n", "\r", "\t", "{", "}", "\x00", "\x7f", "\x85", "\xff", "\u0100", "\u2028", "\ud800", "\U0001f600", "1", "x", "u", "N", " "]
    strs = ["".join(rnd.choice(alphabet) for _ in range(rnd.randint(0, 6))) for _ in range(3000 if tier == "quick" else 8000)]
    strs += stdlib_strings(3000 if tier == "quick" else 40000)
    bad = []
    n = 0
    for s in strs:
        for qm in ("'", '"'):
            body = U.get_unescaped_str(s, qm)
            txt = qm + body + qm
            try:
                val = ast.literal_eval(txt)
            except Exception:
                val = None
            dec = litmodel.decode(body, qm)
            n += 1
            if val is not None and dec != val:
                bad.append((s, txt))
            if val is None and dec is not None:
                bad.append((s, txt))
    # f-string scanner against the parser
    for s in strs[:1500]:
        if not s:
            continue
        tree = ast.JoinedStr(values=[ast.Constant(value=s), ast.FormattedValue(value=ast.Name(id="x", ctx=ast.Load()), conversion=114, format_spec=ast.JoinedStr(values=[ast.Constant(value=">"), ast.FormattedValue(value=ast.Name(id="w", ctx=ast.Load()), conversion=-1, format_spec=None)]))])
        txt = U.expr_unparse(tree)
        back = astcat.parse_expr(txt)
        sc = litmodel.scan_fstring(txt)
        parser_ok = back is not None and astcat.norm(back) == astcat.norm(tree)
        want = [("lit", s), ("field", "x", "r", [("lit", ">"), ("field", "w", None, None)])]
        n += 1
        if parser_ok != (sc == want):
            bad.append((s, txt))
    if bad:
        rep.harness_error("reference decoder disagrees with the parser on the unparser's own text: %r" % (bad[:3],))
    return n


def fstring_shapes():
    """f-string structure catalogue: conversion x spec shape x value kind x nesting depth x position"""
    X = lambda n="x": ast.Name(id=n, ctx=ast.Load())
    convs = [-1, 115, 114, 97]
    specs = {
        "none": lambda: None,
        "const": lambda: ast.JoinedStr(values=[ast.Constant(value=">10")]),
        "field": lambda: ast.JoinedStr(values=[ast.FormattedValue(value=X("w"), conversion=-1, format_spec=None)]),
        "const+field": lambda: ast.JoinedStr(values=[ast.Constant(value=">"), ast.FormattedValue(value=X("w"), conversion=-1, format_spec=None)]),
        "field+const": lambda: ast.JoinedStr(values=[ast.FormattedValue(value=X("w"), conversion=-1, format_spec=None), ast.Constant(value="d")]),
        "field.field": lambda: ast.JoinedStr(values=[ast.FormattedValue(value=X("w"), conversion=-1, format_spec=None), ast.Constant(value="."), ast.FormattedValue(value=X("p"), conversion=-1, format_spec=None), ast.Constant(value="f")]),
        "field!r": lambda: ast.JoinedStr(values=[ast.FormattedValue(value=X("w"), conversion=114, format_spec=None)]),
        "nested_spec": lambda: ast.JoinedStr(values=[ast.FormattedValue(value=X("w"), conversion=-1, format_spec=ast.JoinedStr(values=[ast.Constant(value="0"), ast.FormattedValue(value=X("p"), conversion=-1, format_spec=None)]))]),
    }

    def inner_f(depth, conv=-1):
        v = ast.Constant(value="k")
        node = ast.Subscript(value=X("d"), slice=v, ctx=ast.Load())
        for _ in range(depth):
            node = ast.JoinedStr(values=[ast.Constant(value="<"), ast.FormattedValue(value=node, conversion=conv, format_spec=None), ast.Constant(value=">")])
        return node

    values = {
        "name": lambda: X(),
        "str": lambda: ast.Constant(value="s'\""),
        "dict": lambda: ast.Dict(keys=[ast.Constant(value="k")], values=[X()]),
        "set": lambda: ast.Set(elts=[X()]),
        "dictcomp": lambda: ast.DictComp(key=X("a"), value=X("b"), generators=astcat.gens()),
        # expressions whose TEXT starts with a brace without being a display themselves
        "dict_subscript": lambda: ast.Subscript(value=ast.Dict(keys=[ast.Constant(value=1)], values=[X()]), slice=X("k"), ctx=ast.Load()),
        "set_binop": lambda: ast.BinOp(left=ast.Set(elts=[X()]), op=ast.BitOr(), right=X("y")),
        "dictcomp_method": lambda: ast.Call(func=ast.Attribute(value=ast.DictComp(key=X("a"), value=X("b"), generators=astcat.gens()), attr="get", ctx=ast.Load()), args=[X()], keywords=[]),
        "dict_ifexp": lambda: ast.IfExp(test=X("t"), body=ast.Subscript(value=ast.Dict(keys=[ast.Constant(value=0)], values=[X()]), slice=X("k"), ctx=ast.Load()), orelse=X("y")),
        "set_compare": lambda: ast.Compare(left=ast.Set(elts=[X()]), ops=[ast.LtE()], comparators=[X("y")]),
        "setcomp_attr": lambda: ast.Attribute(value=ast.SetComp(elt=X("a"), generators=astcat.gens()), attr="pop", ctx=ast.Load()),
        "lambda": lambda: ast.Lambda(args=astcat.A0(), body=X()),
        "walrus": lambda: ast.NamedExpr(target=ast.Name(id="w", ctx=ast.Store()), value=X()),
        "ifexp": lambda: ast.IfExp(test=X("t"), body=X(), orelse=X("y")),
        "compare_ne": lambda: ast.Compare(left=X(), ops=[ast.NotEq()], comparators=[X("y")]),
        "call_kw": lambda: ast.Call(func=X("f"), args=[], keywords=[ast.keyword(arg="k", value=ast.Constant(value="v"))]),
        "subscript_str": lambda: ast.Subscript(value=X("d"), slice=ast.Constant(value="k"), ctx=ast.Load()),
        "slice": lambda: ast.Subscript(value=X("d"), slice=ast.Slice(lower=ast.Constant(value=1), upper=None, step=None), ctx=ast.Load()),
        "nested1": lambda: inner_f(1),
        "nested2": lambda: inner_f(2),
        "nested2!r": lambda: inner_f(2, 114),
        "tuple": lambda: ast.Tuple(elts=[X(), X("y")], ctx=ast.Load()),
        "yield": lambda: ast.Yield(value=X()),
        "await": lambda: ast.Await(value=X()),
        "bytes": lambda: ast.Constant(value=b"b'"),
        "fstr_in_call": lambda: ast.Call(func=X("f"), args=[inner_f(1)], keywords=[]),
    }
    positions = {
        "alone": lambda fv: [fv],
        "lit_before": lambda fv: [ast.Constant(value="a{b"), fv],
        "lit_after": lambda fv: [fv, ast.Constant(value="}c\\")],
        "two_fields": lambda fv: [fv, ast.FormattedValue(value=X("z"), conversion=-1, format_spec=None)],
        "between": lambda fv: [ast.Constant(value="'"), fv, ast.Constant(value='"')],
    }
    for (vn, vf), (sn, sf), conv, (pn, pf) in itertools.product(values.items(), specs.items(), convs, positions.items()):
        fv = ast.FormattedValue(value=vf(), conversion=conv, format_spec=sf())
        yield "fstr:%s/%s/%s/%s" % (vn, sn, {-1: "-", 115: "s", 114: "r", 97: "a"}[conv], pn), ast.JoinedStr(values=pf(fv))


def constant_shapes():
    inf = float("inf")
    vals = [0, 1, 10**40, -1, True, False, None, ..., 1.5, 1e22, 1e-7, 5e-324, 1.7976931348623157e308, -0.0, inf, -inf, float("nan"), 1j, 1.5j, complex(1, 2), complex(inf, 1), complex(1, inf), complex(-0.0, 1), complex(inf, inf), b"", b"ab", b"'", b'"', b"\\", b"\n\r\t\x00\xff", bytes(range(256))]
    for i, v in enumerate(vals):
        yield "const:%d:%s" % (i, type(v).__name__), ast.Constant(value=v)
        yield "const_attr:%d:%s" % (i, type(v).__name__), ast.Attribute(value=ast.Constant(value=v), attr="real", ctx=ast.Load())
        yield "const_pow:%d:%s" % (i, type(v).__name__), ast.BinOp(left=ast.Constant(value=v), op=ast.Pow(), right=ast.Constant(value=2))
        yield "const_in_fstr:%d:%s" % (i, type(v).__name__), ast.JoinedStr(values=[ast.FormattedValue(value=ast.Constant(value=v), conversion=-1, format_spec=None)])


def const_equal(a, b):
    """value round trip for constants: same type and same repr (distinguishes -0.0, nan, 1 vs True)"""
    return astcat.norm(a) == astcat.norm(b)


def run(tier):
    seed = common.seed()
    rep = common.Report("C04", tier, "other")
    known = common.Known("C04")
    U = c03.load_unparser()
    n_ascii = validate_ascii_model(rep)
    n_dec = validate_decoder(U, rep, tier)
    if rep.harness_errors:
        return rep.finish()
    # ---- E1 kernels
    from ..kernels import c04k

    conds = []
    # the hex-escape paths (non-printable code points above 0xFF) cost minutes per condition:
    # the code-point domain is partitioned into chunks that are decided in parallel.  Quick tier:
    # full domain for the escaping function itself, "ord(c) < 256 or printable" for the position
    # kernels (their context handling only concerns ASCII characters); thorough: full domain
    # everywhere.
    bmp = [(0, 256), (256, 4096), (4096, 16384), (16384, 32768), (32768, 55296), (55296, 57344), (57344, 65536)]
    astral = [(65536 + i * 0x8000, 65536 + (i + 1) * 0x8000) for i in range(32)]
    if tier == "quick":
        # planes 1-2 and 15-16 (planes 3-14 are rendered through the same \\U path; thorough tier)
        chunks = bmp + astral[:4] + astral[-4:]
    else:
        chunks = bmp + astral
    for name, (fn, params, pre) in c04k.KERNELS.items():
        call = "    return c04k.KERNELS[%r][0](%s)" % (name, ", ".join(n for n, _ in params))
        if name.endswith("_seq"):
            # one condition per (length, depth); quick: length <= 2, thorough: length <= 3
            for n in range(0, 3 if tier == "quick" else 4):
                for depth in range(c04k.SEQ_DEPTHS):
                    conds.append(chrun.Condition("C04:kernel:%s[n=%d,depth=%d]" % (name, n, depth), params, pre + " and n == %d and depth == %d" % (n, depth), call))
            continue
        if params[0][0] != "c":
            conds.append(chrun.Condition("C04:kernel:" + name, params, pre, call))
            continue
        if tier == "thorough" or name == "escape":
            for lo, hi in chunks:
                conds.append(chrun.Condition("C04:kernel:%s[%#x,%#x)" % (name, lo, hi), params, pre + " and %d <= ord(c) < %d" % (lo, hi), call))
        else:
            conds.append(chrun.Condition("C04:kernel:%s[latin1-or-printable]" % name, params, pre + " and (ord(c) < 256 or c.isprintable())", call))
    cond_pre = {c.cid: c.pre for c in conds}
    results = {}
    solver_cpu = 0.0
    with common.Workdir("c04") as wd:
        r, counts, st = chrun.check_conditions(conds, "from vf.kernels import c04k\n", wd, per_cond_timeout=300 if tier == "quick" else 900, batch=1, jobs=16, label="k", models=("ascii",))
        results.update(r)
        solver_cpu += st["solver_cpu_s"]
    discharged = 0
    inconclusive = []
    kernel_rows = []
    for cid, (verdict, info) in sorted(results.items()):
        name = cid.split(":")[-1].split("[")[0]
        row = {"kernel": cid, "bounds": cond_pre[cid], "verdict": verdict}
        if verdict == "confirmed":
            discharged += 1
        elif verdict == "cex":
            args = (info or {}).get("args")
            row["counterexample"] = args
            if args is None:
                inconclusive.append(cid)
            else:
                rr = replay({"kernel": name, "args": args})
                if rr["reproduced"]:
                    desc = "%s:%s" % (cid, ",".join("%s=%r" % kv for kv in sorted(args.items())))
                    if known.match(cid, None, None, "literal-diff"):
                        row["masked"] = True
                    else:
                        rep.violation({"property": "C04", "kind": "c04", "descriptor": cid, "kernel": name, "args": args, "divergence": "literal-diff", "what": "%s fails for %r: emitted %r" % (cid, args, rr.get("emitted"))})
                else:
                    rep.note("counterexample of %s did not reproduce concretely: %r" % (cid, args))
                    inconclusive.append(cid)
        else:
            inconclusive.append(cid)
        kernel_rows.append(row)
    # ---- structure / constants tables (oracle: parser), decided as table queries
    res = {"queries": [], "solver_s": 0.0}
    fs = [(d, t) for d, t in fstring_shapes()]
    fs_valid = [(d, t) for d, t in fs if c03.ref_valid(t)]
    oks = [c03.roundtrip_ok(U, t)[0] for _, t in fs_valid]
    v, bad = c03.table_query("F_fstring_structure", oks, res)
    for i in bad[:30]:
        d, t = fs_valid[i]
        desc = "C04:" + d
        if known.match(desc, None, None, "roundtrip-diff"):
            continue
        rep.violation({"property": "C04", "kind": "c04", "descriptor": desc, "tree": ast.dump(t), "emitted": c03.safe_unparse(U, t), "divergence": "roundtrip-diff", "what": "%s -> %r" % (desc, c03.safe_unparse(U, t))})
    cs = [(d, t) for d, t in constant_shapes() if c03.ref_valid(t)]
    oks_c = [c03.roundtrip_ok(U, t)[0] for _, t in cs]
    v2, bad2 = c03.table_query("N_constants", oks_c, res)
    for i in bad2[:30]:
        d, t = cs[i]
        desc = "C04:" + d
        if known.match(desc, None, None, "roundtrip-diff"):
            continue
        rep.violation({"property": "C04", "kind": "c04", "descriptor": desc, "tree": ast.dump(t), "emitted": c03.safe_unparse(U, t), "divergence": "roundtrip-diff", "what": "%s -> %r" % (desc, c03.safe_unparse(U, t))})
    # stdlib literal corpus: every string/bytes/number/f-string literal, custom unparser round trip
    lits = stdlib_literals(400 if tier == "quick" else 100000)
    oks_l = [c03.roundtrip_ok(U, t)[0] for t in lits]
    v3, bad3 = c03.table_query("L_stdlib_literals", oks_l, res)
    for i in bad3[:20]:
        t = lits[i]
        rep.violation({"property": "C04", "kind": "c04", "descriptor": "C04:stdlib-literal:%d" % i, "tree": ast.dump(t), "emitted": c03.safe_unparse(U, t), "divergence": "roundtrip-diff", "what": "stdlib literal -> %r" % (c03.safe_unparse(U, t) or "")[:200]})
    for e in known.entries:
        still = kf_still_fails(U, e)
        if still is False:
            rep.note("known finding %s: minimal input no longer fails" % e["id"])
        else:
            rep.known("%s: %s" % (e["id"], e["what"]))
    cov = rep.coverage
    cov["explanation"] = (
        "E1: %d PEP-316 conditions on the real get_unescaped_str/expr_unparse with one symbolic character (all code points) per literal position, decoded by a reference decoder executed symbolically; "
        "the per-character result lifts to strings of every length because each character is shown to be rendered as one self-delimiting lexical unit (kernel escape_selfdelimiting). "
        "E2-style table queries (oracle: CPython's parser): %d f-string structure shapes, %d constant shapes, %d literals of the standard library sources."
        % (len(conds), len(fs_valid), len(cs), len(lits))
    )
    cov["obligations"] = len(conds) + len(res["queries"])
    cov["discharged"] = discharged + sum(1 for q in res["queries"] if q["verdict"] == "unsat")
    cov["kernels"] = kernel_rows
    cov["queries"] = res["queries"]
    cov["inconclusive"] = inconclusive
    cov["solver_cpu_s"] = round(solver_cpu + res["solver_s"], 2)
    cov["model_validation"] = {"ascii_points": n_ascii, "decoder_cases": n_dec}
    cov["evaluations"] = len(fs_valid) + len(cs) + len(lits) + len(conds)
    cov["distinct_nontrivial"] = len(fs_valid) + len(cs)
    cov["rule"] = "kernels: one obligation per literal position; tables: every f-string shape (value kind x spec shape x conversion x position) and constant class representative that CPython's own unparser round-trips"
    cov["samples"] = kernel_rows[:3] + [{"shape": d, "emitted": c03.safe_unparse(U, t)} for d, t in fs_valid[:: max(1, len(fs_valid) // 4)][:4]]
    cov["functions_encoded"] = ["oneliner.expr_unparse.get_unescaped_str", "oneliner.expr_unparse.expr_unparse / unparse_Constant / _unparse_JoinedStr / unparse_JoinedStr / unparse_FormattedValue / _Node (quote alternation)", "vf.models.litmodel.decode / scan_fstring (reference, executed symbolically)", "vf.rt.py_ascii (model of builtins.ascii, validated)"]
    rep.assumptions += [
        "stub: builtins.ascii replaced by the pure-Python model py_ascii (validated against the builtin on %d code points incl. all of 0..0x2FF, the surrogate range and plane boundaries)" % n_ascii,
        "the reference decoder is validated against ast.literal_eval / ast.parse on the unparser's own text (%d cases) at check start" % n_dec,
        "numbers / bytes go through C-level repr: class representatives, concrete (outside the solver)",
        "quick tier: code points of planes 3-14 (0x30000..0xEFFFF) are outside the bound of kernel `escape` (decided in the thorough tier); position kernels are bounded to ord(c) < 256 or printable in the quick tier",
        "a brace inside a format-spec literal (only expressible as f'{x:\\x7d}') is excluded from kernel fstring_spec_lit: known finding KF-C04-SPECBRACE",
    ]
    return rep.finish()


def stdlib_literals(limit):
    import sysconfig

    root = sysconfig.get_paths()["stdlib"]
    out = []
    for fn in sorted(f for f in os.listdir(root) if f.endswith(".py")):
        try:
            with open(os.path.join(root, fn), encoding="utf8") as f:
                tree = ast.parse(f.read())
        except Exception:
            continue
        for n in ast.walk(tree):
            if isinstance(n, (ast.Constant, ast.JoinedStr)) and not (isinstance(n, ast.Constant) and n.value is None):
                if c03.ref_valid(n):
                    out.append(n)
            if len(out) >= limit:
                return out
    return out


def kf_still_fails(U, e):
    mi = e.get("minimal_input")
    if not mi:
        return None
    try:
        t = ast.parse(mi, mode="eval").body
    except SyntaxError:
        return None
    return not c03.roundtrip_ok(U, t)[0]


def replay(rec):
    if "kernel" in rec:
        from ..kernels import c04k

        fn, params, pre = c04k.KERNELS[rec["kernel"]]
        args = [rec["args"][n] for n, _ in params]
        try:
            ok = fn(*args)
        except Exception as e:
            return {"reproduced": True, "divergence": "literal-diff", "emitted": "exception %s" % type(e).__name__}
        emitted = None
        try:
            emitted = c04k.U.get_unescaped_str(rec["args"].get("c", ""), "'") if "c" in rec["args"] else None
        except Exception:
            pass
        return {"reproduced": not ok, "divergence": "literal-diff", "emitted": emitted}
    return c03.replay(rec)
