"""C05 -- break/continue/return/else are lowered with exact statement-level control flow.
Engine: symbolic co-execution (CrossHair/z3) of exec(source) vs eval(converted) over a symbolic
schedule of condition outcomes and symbolic iterable lengths, for every skeleton of the family."""
import random

from .. import common, sce
from ..families import c05 as fam


def templates_for(tier, seed):
    maxB = 5 if tier == "quick" else 6
    tpls = []

    def mk(desc, src, nc, ni):
        pre = ["len(B) <= %d" % maxB]
        params = [("B", "List[bool]")]
        params.append(("NS", "List[int]"))
        pre.append("len(NS) <= %d and all(0 <= n <= 2 for n in NS)" % max(ni, 0))
        return sce.Template(desc, src, params, " and ".join(pre), observe="trace", budget=80)

    core = []
    for size in (1, 2, 3):
        for d in fam.universe(size, 3, ("module", "function", "class")):
            core.append(d)
    core += list(fam.extras())
    u4 = list(fam.universe(4, 3, ("module", "function", "class")))
    u4x = list(fam.universe(4, 3, ("def_in_loop", "method"))) + list(fam.decorated(3)) + list(fam.decorated(4)) + list(fam.bare_returns(2)) + list(fam.bare_returns(3)) + list(fam.bare_returns(4))
    comp = list(fam.composed(3))
    mixed3 = list(fam.mixed_returns(3))
    mixed4 = list(fam.mixed_returns(4))
    pad3 = list(fam.padded(1)) + list(fam.padded(2)) + list(fam.padded(3))
    res3 = list(fam.resumed(2)) + list(fam.resumed(3))
    res4 = list(fam.resumed(4))
    if tier == "quick":
        rnd = random.Random(seed)
        # fixed core + seed-rotated slices of the 4-node universe and of the composed (deeper) family
        pick4 = rnd.sample(u4, 120) + rnd.sample(u4x, 60)
        pickc = rnd.sample(comp, 200)
        pickm = mixed3 + rnd.sample(mixed4, 40)
        # padded skeletons: those with an else clause (where the truthiness / emptiness of a lowered
        # branch matters) are preferred, and they run under if_style=short_circuit
        pad_else = [p for p in pad3 if "e(" in p[0]]
        # ... and those with an interrupt (a filler right after a conditional interrupt must stay guarded)
        pad_int = [p for p in pad3 if any(x in p[0].split(":")[2] for x in "BCR") and "e(" not in p[0]]
        pickp = rnd.sample(pad_else, 70) + rnd.sample(pad_int, 60) + rnd.sample(pad3, 20)
        pickr = res3 + rnd.sample(res4, 40)
        chosen = core + pick4 + pickc + pickm + pickp + pickr
        universe_note = {"core": len(core), "u4": len(u4), "u4x": len(u4x), "picked4": len(pick4), "composed_universe": len(comp), "picked_composed": len(pickc), "mixed_returns_universe": len(mixed3) + len(mixed4), "picked_mixed_returns": len(pickm), "padded_universe": len(pad3), "picked_padded": len(pickp), "resumed_iterator_universe": len(res3) + len(res4), "picked_resumed": len(pickr)}
    else:
        u5 = list(fam.universe(5, 3, ("module", "function")))
        pad4 = list(fam.padded(4))
        rnd = random.Random(seed)
        pick5 = rnd.sample(u5, 400)
        pickc = rnd.sample(comp, 2500)
        pickp = pad3 + rnd.sample(pad4, 400)
        pick4x = rnd.sample(u4x, 1200)
        chosen = core + u4 + pick4x + pick5 + pickc + mixed3 + mixed4 + pickp + res3 + res4
        universe_note = {"core": len(core), "u4": len(u4), "u4x": len(u4x), "picked4x": len(pick4x), "u5_universe": len(u5), "picked5": len(pick5), "composed_universe": len(comp), "picked_composed": len(pickc), "mixed_returns": len(mixed3) + len(mixed4), "padded_universe": len(pad3) + len(pad4), "picked_padded": len(pickp), "resumed_iterator": len(res3) + len(res4)}
    for d in chosen:
        tpls.append(mk(*d))
    return tpls, universe_note


def run(tier, args=None):
    seed = common.seed()
    rep = common.Report("C05", tier, "translation_validation")
    known = common.Known("C05")
    tpls, note = templates_for(tier, seed)
    with common.Workdir("c05") as wd:
        if tier == "quick":
            # one semantic configuration per program, rotating so that all 4 are exercised
            for k, t in enumerate(tpls):
                t.sem_configs = [common.SEM_CONFIGS[(k + seed) % 4]]
                if "+pad_" in t.desc:
                    t.sem_configs = [common.SEM_CONFIGS[1 + 2 * ((k + seed) % 2)]]
            d = sce.Driver(rep, known, wd, tier, per_cond_timeout=20)
            d.run(tpls)
            agg = merge(None, d)
        else:
            # all 4 semantic configurations for the plain universe up to 3 nodes, 2 rotating ones for
            # the 4-node universe; one rotating configuration for the decorated / 5-node / composed /
            # padded / mixed-return families
            for k, t in enumerate(tpls):
                plain = t.desc.split(":")[1] in ("module", "function", "class", "extra") and ":ctx:" not in t.desc
                nodes = len(t.desc.split(":")[2].replace("(", "").replace(")", "").replace("e", "")) if plain else 9
                if plain and nodes <= 3:
                    continue
                if plain and nodes == 4:
                    t.sem_configs = [common.SEM_CONFIGS[(k + seed) % 4], common.SEM_CONFIGS[(k + seed + 2) % 4]]
                elif "+pad_" in t.desc:
                    t.sem_configs = [common.SEM_CONFIGS[1], common.SEM_CONFIGS[3]]
                else:
                    t.sem_configs = [common.SEM_CONFIGS[(k + seed) % 4]]
            d = sce.Driver(rep, known, wd, tier, per_cond_timeout=60)
            d.run(tpls)
            agg = merge(None, d)
    finish(rep, agg, note, tier)
    return rep.finish()


def merge(agg, d):
    if agg is None:
        return {"stats": dict(d.stats), "samples": list(d.samples), "inconclusive": list(d.inconclusive_ids), "masked": list(d.masked_ids)}
    for k, v in d.stats.items():
        agg["stats"][k] = agg["stats"].get(k, 0) + v
    agg["samples"] += d.samples
    agg["inconclusive"] += d.inconclusive_ids
    agg["masked"] += d.masked_ids
    return agg


def finish(rep, agg, note, tier):
    st = agg["stats"]
    cov = rep.coverage
    cov.update(st)
    cov["samples"] = agg["samples"][:4]
    cov["universe"] = note
    cov["inconclusive_obligations"] = agg["inconclusive"][:50]
    cov["masked_templates"] = sorted(set(agg["masked"]))[:50]
    cov["exhaustive"] = False
    cov["functions_encoded"] = [
        "oneliner.convert_code_string (run concretely on every skeleton, 8 option combinations)",
        "converted expression text of every skeleton (executed symbolically)",
        "oneliner.pending_nodes._PendingCompoundStmt._iter_branch / PendingIf / PendingWhile / PendingFor / PendingBreak / PendingContinue / PendingReturn / PendingFunctionDef / PendingClassDef (lowering under test)",
        "oneliner.presets.iter_wrapper (executed symbolically as part of the converted text)",
    ]
    cov["bounds"] = "skeleton size <= 4 nodes exhaustive (thorough), 5 nodes sampled; composed family: interrupt-containing blocks of <= 3 nodes spliced into 27 loop/else/if contexts of up to 3 levels (6-10 nodes, depth <= 5) at module/function/class/method level (thorough: 2 500 of them per run, seed-rotated); mixed bare/valued returns (every proper subset of the returns of every function skeleton of 3-4 nodes); padded skeletons (a statement that lowers to nothing or to a constant before every statement); resumed iterators (loops over named iterator objects -- with generator-like close/send/throw that log -- which are read to the end after the skeleton); nesting depth <= 3 in the plain universe; schedule len(B) <= %d then False; every iterable yields 0..2 items; event budget 80" % (5 if tier == "quick" else 6)
    cov["explanation"] = "one PEP-316 condition per (skeleton, semantic configuration): CrossHair/z3 explore every path of exec(source) and eval(converted) over the symbolic schedule and iterable lengths and compare the traces of marker/condition/iterator events and the return value"
    rep.assumptions += [
        "stubs: mark/cond/log/It are harness helpers injected as globals on both sides",
        "unparser dimension reduced by AST identity of the two texts (both unparsers produce the same tree => one co-execution covers both)",
        "outside the bound: > 5 nodes, > 6 condition outcomes, > 2 items per iterable, generators as iterables",
        "a Confirmed verdict is CrossHair's 'Confirmed over all paths' plus at least one explored path that reached the end of the source",
    ]
