"""C10 -- conversion is a pure function of (source, options) up to fresh-name choice.
E1 on the real Configs/Cfg/convert_code_string: the API history is the symbolic variable."""
import concurrent.futures
import itertools
import json
import os
import subprocess
import sys

from .. import chrun, common
from ..kernels import c10k


HASH_SEEDS = ["1", "2", "3", "4"]


def build_reference(wd, nprog, hash_diffs=None):
    """R[p, triple] computed in fresh processes (one per entry)"""
    jobs = []
    for p in range(nprog):
        for u in c10k.LEGAL["unparser"]:
            for w in c10k.LEGAL["expr_wrapper"]:
                for i in c10k.LEGAL["if_style"]:
                    jobs.append((p, u, w, i))

    def one(j, hashseed="1"):
        p, u, w, i = j
        env = dict(os.environ, ONELINER_VERIF_REPO=common.REPO, PYTHONHASHSEED=hashseed)
        r = subprocess.run([sys.executable, "-m", "vf.kernels.c10k", str(p), u, w, i], capture_output=True, text=True, cwd=common.VERIF, env=env, timeout=60)
        if r.returncode != 0:
            raise RuntimeError("reference conversion failed: %s" % r.stderr[-300:])
        return r.stdout

    with concurrent.futures.ThreadPoolExecutor(max_workers=16) as ex:
        outs = list(ex.map(one, jobs))
        # the reference must be well defined: the same call in fresh processes with other hash
        # seeds gives the same text (the explored histories themselves run under one more seed)
        if hash_diffs is not None:
            for hs in HASH_SEEDS[1:]:
                other = list(ex.map(lambda j: one(j, hs), jobs))
                for j, a, b in zip(jobs, outs, other):
                    if a != b:
                        hash_diffs.append((j, hs))
    ref = {c10k.triple_key(p, {"unparser": u, "expr_wrapper": w, "if_style": i}): t for (p, u, w, i), t in zip(jobs, outs)}
    path = os.path.join(wd, "c10_ref.json")
    with open(path, "w") as f:
        json.dump(ref, f)
    return path, ref


def run(tier):
    rep = common.Report("C10", tier, "model_checking")
    known = common.Known("C10")
    nprog = 2 if tier == "quick" else 3
    L = 3
    L_SUB = 0 if tier == "quick" else 4  # thorough: longer histories over the one-object sub-alphabet
    acts = c10k.step_kinds(nprog)
    sub = c10k.sub_alphabet(nprog)
    with common.Workdir("c10") as wd:
        hash_diffs = []
        ref_path, ref = build_reference(wd, nprog, hash_diffs)
        seen_p = set()
        for (p, u, w, i), hs in hash_diffs:
            if p in seen_p:
                continue
            seen_p.add(p)
            rep.violation({"property": "C10", "kind": "c10", "descriptor": "C10:hashseed:program=%d" % p, "program": p, "config": [u, w, i], "hashseeds": [HASH_SEEDS[0], hs], "nprog": nprog, "divergence": "hashseed-diff", "what": "the text of convert_code_string(PROGRAMS[%d], %s/%s/%s) in a fresh process differs (beyond renaming of temporaries) between PYTHONHASHSEED=%s and %s" % (p, u, w, i, HASH_SEEDS[0], hs)})
        # sensitivity of the pool: the reference texts of one program must differ between triples
        distinct = {p: len({ref[k] for k in ref if k.startswith("%d|" % p)}) for p in range(nprog)}
        conds = []
        for first in range(len(acts)):
            body = "    return c10k.k_history(%d, R, %d)" % (first, nprog)
            conds.append(chrun.Condition("C10:history:first=%s" % "/".join(map(str, acts[first])), [("R", "List[int]")], "len(R) <= %d and all(0 <= x < %d for x in R)" % (L - 1, len(acts)), body))
        if L_SUB:
            for first in range(len(sub)):
                body = "    return c10k.k_history_sub(%d, R, %d)" % (first, nprog)
                conds.append(chrun.Condition("C10:history4:first=%s" % "/".join(map(str, acts[sub[first]])), [("R", "List[int]")], "len(R) <= %d and all(0 <= x < %d for x in R)" % (L_SUB - 1, len(sub)), body))
        chrun.precompile_repo(wd, common.REPO)
        prelude = "from vf.kernels import c10k\nc10k.load_ref(%r)\n" % ref_path
        results, counts, st = chrun.check_conditions(conds, prelude, wd, per_cond_timeout=400 if tier == "quick" else 3000, batch=1, jobs=16, label="h")
        discharged = 0
        inconclusive = []
        samples = []
        for cid, (verdict, info) in sorted(results.items()):
            if verdict == "confirmed":
                discharged += 1
            elif verdict == "cex":
                args = (info or {}).get("args")
                if not args:
                    inconclusive.append(cid)
                    continue
                if cid.startswith("C10:history4:"):
                    first = [i for i, c in enumerate(conds) if c.cid == cid][0] - len(acts)
                    sel = [sub[first]] + [sub[x] for x in args["R"]]
                else:
                    first = [i for i, c in enumerate(conds) if c.cid == cid][0]
                    sel = [first] + list(args["R"])
                rec = {"property": "C10", "kind": "c10", "descriptor": cid, "history": [list(acts[a]) for a in sel], "sel": sel, "nprog": nprog, "divergence": "history-diff", "what": "history %s" % [acts[a] for a in sel]}
                rp = os.path.join(wd, "rec.json")
                with open(rp, "w") as f:
                    json.dump(rec, f)
                env = dict(os.environ)
                p = subprocess.run([sys.executable, "-m", "vf.replay", rp], capture_output=True, text=True, cwd=common.VERIF, env=env, timeout=120)
                try:
                    r = json.loads(p.stdout.strip().splitlines()[-1])
                except Exception:
                    r = {"reproduced": False}
                if r.get("reproduced"):
                    if known.match(cid, None, None, "history-diff"):
                        continue
                    rep.violation(rec)
                else:
                    rep.note("counterexample history did not reproduce in a fresh process: %s" % rec["what"])
                    inconclusive.append(cid)
            else:
                inconclusive.append(cid)
    for e in known.entries:
        rep.known("%s: %s" % (e["id"], e["what"]))
    n = len(acts)
    total_hist = n * sum(n**k for k in range(0, L)) + (len(sub) * sum(len(sub) ** k for k in range(0, L_SUB)) if L_SUB else 0)
    cov = rep.coverage
    cov["states"] = total_hist
    cov["transitions"] = total_hist * 1
    cov["traces_validated_against_impl"] = total_hist if discharged == len(conds) else 0
    cov["samples"] = [{"first_action": list(acts[i]), "verdict": results[c.cid][0]} for i, c in enumerate(conds[: len(acts)])][:6]
    cov["obligations"] = len(conds)
    cov["discharged"] = discharged
    cov["inconclusive"] = inconclusive
    cov["action_alphabet"] = [list(a) for a in acts]
    cov["history_length"] = L
    cov["history_length_sub_alphabet"] = L_SUB
    cov["sub_alphabet_size"] = len(sub)
    cov["reference_entries"] = len(ref)
    cov["reference_hash_seeds"] = HASH_SEEDS
    cov["distinct_reference_texts_per_program"] = distinct
    cov["solver_cpu_s"] = st["solver_cpu_s"]
    cov["explanation"] = "every API history of length <= %d over an alphabet of %d concrete actions (thorough: also every history of length <= 4 over the sub-alphabet that uses one options object) (create options object, set option/value incl. illegal values, convert with an object, convert without options, reseed random, convert a program that is refused half-way) is explored by CrossHair (the history is the symbolic variable, partitioned by its first action); conversions run concretely and are compared, after alpha-renaming of the __ol_ temporaries, with the same call made in a fresh process" % (L, n)
    cov["functions_encoded"] = ["oneliner.config.Cfg.__set__/__get__/__set_name__", "oneliner.config.Configs", "oneliner.convert_code_string (default options path and explicit options path)", "oneliner.utils.unique_id (through the reseed action)", "oneliner.presets.iter_wrapper (shared module-level AST, program 1)"]
    rep.assumptions += ["module state is made pristine at the start of every explored path by re-importing oneliner (so that one path cannot influence the next); the property itself is about state inside one history", "states = number of histories within the bound; each history is one path of the kernel", "process-level state: the reference of every (program, options) entry is computed in fresh processes under 4 hash seeds and must coincide; the histories run under the check's own hash seed", "bound: <= 2 options objects, %d programs, 3 values per option (2 legal + 1 illegal)" % nprog]
    return rep.finish()


def replay(rec):
    from ..kernels import c10k as k
    import tempfile

    if rec.get("divergence") == "hashseed-diff":
        outs = []
        for hs in rec["hashseeds"]:
            env = dict(os.environ, ONELINER_VERIF_REPO=common.REPO, PYTHONHASHSEED=hs)
            r = subprocess.run([sys.executable, "-m", "vf.kernels.c10k", str(rec["program"])] + list(rec["config"]), capture_output=True, text=True, cwd=common.VERIF, env=env, timeout=60)
            outs.append(r.stdout)
        return {"reproduced": outs[0] != outs[1], "divergence": "hashseed-diff"}
    with tempfile.TemporaryDirectory(prefix="olverif-c10r-") as wd:
        ref_path, ref = build_reference(wd, rec["nprog"])
        k.load_ref(ref_path)
        ok = k.run_history(rec["sel"], rec["nprog"])
    return {"reproduced": not ok, "divergence": "history-diff"}
