"""C03-T: node *shapes* (arity / optional-field vectors per kind) with canonical atoms as children."""
import ast
import itertools

from .astcat import A0, BINOPS, BOOLOPS, CMPOPS, N, UNOPS, gens


def lambda_shapes():
    for npo in range(3):
        for nreg in range(3):
            for var in (0, 1):
                for nkw in range(3):
                    for kwa in (0, 1):
                        npos = npo + nreg
                        for ndef in range(npos + 1):
                            for kwmask in range(1 << nkw):
                                a = A0(
                                    posonlyargs=[ast.arg(arg="p%d" % i) for i in range(npo)],
                                    args=[ast.arg(arg="r%d" % i) for i in range(nreg)],
                                    vararg=ast.arg(arg="va") if var else None,
                                    kwonlyargs=[ast.arg(arg="k%d" % i) for i in range(nkw)],
                                    kw_defaults=[(N("d%d" % i) if kwmask >> i & 1 else None) for i in range(nkw)],
                                    kwarg=ast.arg(arg="kwa") if kwa else None,
                                    defaults=[N("e%d" % i) for i in range(ndef)],
                                )
                                yield "Lambda:po%d.r%d.v%d.k%d.kw%d.d%d.m%d" % (npo, nreg, var, nkw, kwa, ndef, kwmask), ast.Lambda(args=a, body=N("b"))


def call_shapes():
    # args: sequences over pos/star (any order), keywords: kw/dstar (any order), total <= 3
    for na in range(4):
        for aseq in itertools.product("ps", repeat=na):
            for nk in range(4 - na):
                for kseq in itertools.product("kd", repeat=nk):
                    args = [(N("a%d" % i) if c == "p" else ast.Starred(value=N("a%d" % i), ctx=ast.Load())) for i, c in enumerate(aseq)]
                    kws = [ast.keyword(arg=("k%d" % i if c == "k" else None), value=N("v%d" % i)) for i, c in enumerate(kseq)]
                    yield "Call:%s|%s" % ("".join(aseq), "".join(kseq)), ast.Call(func=N("f"), args=args, keywords=kws)
    # single generator argument, generator among others
    g = ast.GeneratorExp(elt=N("x"), generators=gens(N("y")))
    yield "Call:onlygen", ast.Call(func=N("f"), args=[g], keywords=[])
    yield "Call:gen+pos", ast.Call(func=N("f"), args=[g, N("a")], keywords=[])
    yield "Call:gen+kw", ast.Call(func=N("f"), args=[g], keywords=[ast.keyword(arg="k", value=N("v"))])


def slice_shapes():
    for m in range(8):
        sl = ast.Slice(lower=N("l") if m & 1 else None, upper=N("u") if m & 2 else None, step=N("s") if m & 4 else None)
        yield "Slice:%d" % m, ast.Subscript(value=N("a"), slice=sl, ctx=ast.Load())
        sl2 = ast.Slice(lower=N("l") if m & 1 else None, upper=N("u") if m & 2 else None, step=N("s") if m & 4 else None)
        yield "SliceInTuple:%d" % m, ast.Subscript(value=N("a"), slice=ast.Tuple(elts=[sl2, N("i")], ctx=ast.Load()), ctx=ast.Load())
        sl3 = ast.Slice(lower=N("l") if m & 1 else None, upper=N("u") if m & 2 else None, step=N("s") if m & 4 else None)
        sl4 = ast.Slice(lower=None, upper=None, step=None)
        yield "SliceInTuple2:%d" % m, ast.Subscript(value=N("a"), slice=ast.Tuple(elts=[N("i"), sl3, sl4], ctx=ast.Load()), ctx=ast.Load())
        sl5 = ast.Slice(lower=N("l") if m & 1 else None, upper=N("u") if m & 2 else None, step=N("s") if m & 4 else None)
        yield "SliceInTuple1:%d" % m, ast.Subscript(value=N("a"), slice=ast.Tuple(elts=[sl5], ctx=ast.Load()), ctx=ast.Load())
    yield "Subscript:tuple0", ast.Subscript(value=N("a"), slice=ast.Tuple(elts=[], ctx=ast.Load()), ctx=ast.Load())
    yield "Subscript:tuple1", ast.Subscript(value=N("a"), slice=ast.Tuple(elts=[N("i")], ctx=ast.Load()), ctx=ast.Load())
    yield "Subscript:tuple2", ast.Subscript(value=N("a"), slice=ast.Tuple(elts=[N("i"), N("j")], ctx=ast.Load()), ctx=ast.Load())
    yield "Subscript:starred", ast.Subscript(value=N("a"), slice=ast.Tuple(elts=[ast.Starred(value=N("i"), ctx=ast.Load())], ctx=ast.Load()), ctx=ast.Load())
    yield "Subscript:starred2", ast.Subscript(value=N("a"), slice=ast.Tuple(elts=[N("j"), ast.Starred(value=N("i"), ctx=ast.Load())], ctx=ast.Load()), ctx=ast.Load())


def comp_shapes():
    kinds = {
        "ListComp": lambda g: ast.ListComp(elt=N("e"), generators=g),
        "SetComp": lambda g: ast.SetComp(elt=N("e"), generators=g),
        "GeneratorExp": lambda g: ast.GeneratorExp(elt=N("e"), generators=g),
        "DictComp": lambda g: ast.DictComp(key=N("k"), value=N("v"), generators=g),
    }
    targets = {
        "name": lambda: ast.Name(id="i", ctx=ast.Store()),
        "tuple": lambda: ast.Tuple(elts=[ast.Name(id="i", ctx=ast.Store()), ast.Name(id="j", ctx=ast.Store())], ctx=ast.Store()),
        "nested": lambda: ast.Tuple(elts=[ast.Name(id="i", ctx=ast.Store()), ast.Tuple(elts=[ast.Name(id="j", ctx=ast.Store()), ast.Starred(value=ast.Name(id="k", ctx=ast.Store()), ctx=ast.Store())], ctx=ast.Store())], ctx=ast.Store()),
        "list": lambda: ast.List(elts=[ast.Name(id="i", ctx=ast.Store())], ctx=ast.Store()),
        "attr": lambda: ast.Attribute(value=N("o"), attr="a", ctx=ast.Store()),
        "sub": lambda: ast.Subscript(value=N("o"), slice=N("z"), ctx=ast.Store()),
    }
    for kn, mk in kinds.items():
        for nfor in (1, 2, 3):
            for ifs in itertools.product(range(3), repeat=nfor):
                for asy in (0, 1):
                    g = []
                    for c, nif in enumerate(ifs):
                        g.append(ast.comprehension(target=ast.Name(id="i%d" % c, ctx=ast.Store()), iter=N("it%d" % c), ifs=[N("c%d%d" % (c, t)) for t in range(nif)], is_async=asy if c == 0 else 0))
                    yield "%s:for%d.ifs%s.async%d" % (kn, nfor, "".join(map(str, ifs)), asy), mk(g)
        for tn, tf in targets.items():
            yield "%s:target_%s" % (kn, tn), mk([ast.comprehension(target=tf(), iter=N("q"), ifs=[], is_async=0)])


def display_shapes():
    for n in range(4):
        for stars in itertools.product((0, 1), repeat=n):
            el = lambda: [(ast.Starred(value=N("s%d" % i), ctx=ast.Load()) if st else N("e%d" % i)) for i, st in enumerate(stars)]
            yield "List:%s" % "".join(map(str, stars)), ast.List(elts=el(), ctx=ast.Load())
            yield "Tuple:%s" % "".join(map(str, stars)), ast.Tuple(elts=el(), ctx=ast.Load())
            if n:
                yield "Set:%s" % "".join(map(str, stars)), ast.Set(elts=el())
        for unp in itertools.product((0, 1), repeat=n):
            keys = [(None if u else N("k%d" % i)) for i, u in enumerate(unp)]
            yield "Dict:%s" % "".join(map(str, unp)), ast.Dict(keys=keys, values=[N("v%d" % i) for i in range(n)])
    for op in BOOLOPS:
        for n in (2, 3, 4):
            yield "BoolOp_%s:%d" % (op.__name__, n), ast.BoolOp(op=op(), values=[N("b%d" % i) for i in range(n)])


def compare_shapes():
    for n in (1, 2, 3):
        for ops in itertools.product(CMPOPS, repeat=n):
            yield "Compare:%s" % ".".join(o.__name__ for o in ops), ast.Compare(left=N("l"), ops=[o() for o in ops], comparators=[N("c%d" % i) for i in range(n)])


def misc_shapes():
    for v, nm in [(1, "int"), (0, "zero"), (10**30, "big"), (1.5, "float"), (1e22, "f1e22"), (1e-7, "f1e-7"), (5e-324, "denormal"), (1j, "complex"), (1.5j, "cfloat"), (True, "true"), (False, "false"), (None, "none"), (..., "ellipsis"), (b"ab", "bytes"), ("s", "str")]:
        c = lambda v=v: ast.Constant(value=v)
        yield "Attribute:on_%s" % nm, ast.Attribute(value=c(), attr="real", ctx=ast.Load())
        yield "Call:on_%s" % nm, ast.Call(func=c(), args=[], keywords=[])
        yield "Subscript:on_%s" % nm, ast.Subscript(value=c(), slice=N("i"), ctx=ast.Load())
        yield "Pow:base_%s" % nm, ast.BinOp(left=c(), op=ast.Pow(), right=N("e"))
        yield "USub:%s" % nm, ast.UnaryOp(op=ast.USub(), operand=c())
        yield "Const:%s" % nm, c()
    yield "Yield:none", ast.Yield(value=None)
    yield "Yield:tuple", ast.Yield(value=ast.Tuple(elts=[N("a"), N("b")], ctx=ast.Load()))
    yield "Await:call", ast.Await(value=ast.Call(func=N("f"), args=[], keywords=[]))
    yield "NamedExpr:top", ast.NamedExpr(target=ast.Name(id="w", ctx=ast.Store()), value=N("x"))
    yield "Starred:in_call_boolop", ast.Call(func=N("f"), args=[ast.Starred(value=ast.BoolOp(op=ast.Or(), values=[N("a"), N("b")]), ctx=ast.Load())], keywords=[])
    for op in UNOPS:
        for op2 in UNOPS:
            yield "Unary:%s(%s)" % (op.__name__, op2.__name__), ast.UnaryOp(op=op(), operand=ast.UnaryOp(op=op2(), operand=N("x")))
    for op in BINOPS:
        yield "Pow:right_neg_%s" % op.__name__, ast.BinOp(left=N("a"), op=op(), right=ast.UnaryOp(op=ast.USub(), operand=N("b")))
        yield "Pow:left_neg_%s" % op.__name__, ast.BinOp(left=ast.UnaryOp(op=ast.USub(), operand=N("b")), op=op(), right=N("a"))


def all_shapes(full_compare=True):
    gensrc = [lambda_shapes(), call_shapes(), slice_shapes(), comp_shapes(), display_shapes(), misc_shapes()]
    if full_compare:
        gensrc.append(compare_shapes())
    for g in gensrc:
        for d, t in g:
            yield d, t
