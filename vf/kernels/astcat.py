"""Catalogue of expression node kinds and slots (complete by construction: derived from `ast`,
fails closed when `ast` grows a kind the builder does not know) and helpers shared by C02/C03/C04."""
import ast

N = lambda s: ast.Name(id=s, ctx=ast.Load())
BINOPS = [ast.Pow, ast.Mult, ast.MatMult, ast.Div, ast.FloorDiv, ast.Mod, ast.Add, ast.Sub, ast.LShift, ast.RShift, ast.BitAnd, ast.BitXor, ast.BitOr]
UNOPS = [ast.UAdd, ast.USub, ast.Invert, ast.Not]
BOOLOPS = [ast.And, ast.Or]
CMPOPS = [ast.Eq, ast.NotEq, ast.Lt, ast.LtE, ast.Gt, ast.GtE, ast.Is, ast.IsNot, ast.In, ast.NotIn]


def A0(**kw):
    d = dict(posonlyargs=[], args=[], kwonlyargs=[], kw_defaults=[], defaults=[])
    d.update(kw)
    return ast.arguments(**d)


def gens(it=None, ifs=None, target=None, is_async=0):
    return [ast.comprehension(target=target or ast.Name(id="i", ctx=ast.Store()), iter=it or N("q"), ifs=ifs or [], is_async=is_async)]


def kinds():
    K = {}
    K["Name"] = lambda: N("x")
    K["Const_int"] = lambda: ast.Constant(value=1)
    K["Const_str"] = lambda: ast.Constant(value="s")
    K["Const_bytes"] = lambda: ast.Constant(value=b"s")
    K["Const_float"] = lambda: ast.Constant(value=1.5)
    K["Const_complex"] = lambda: ast.Constant(value=1j)
    K["Const_None"] = lambda: ast.Constant(value=None)
    K["Const_True"] = lambda: ast.Constant(value=True)
    K["Const_Ellipsis"] = lambda: ast.Constant(value=...)
    K["JoinedStr"] = lambda: ast.JoinedStr(values=[ast.FormattedValue(value=N("x"), conversion=-1, format_spec=None)])
    K["List"] = lambda: ast.List(elts=[N("x")], ctx=ast.Load())
    K["Tuple0"] = lambda: ast.Tuple(elts=[], ctx=ast.Load())
    K["Tuple1"] = lambda: ast.Tuple(elts=[N("x")], ctx=ast.Load())
    K["Tuple2"] = lambda: ast.Tuple(elts=[N("x"), N("y")], ctx=ast.Load())
    K["Set"] = lambda: ast.Set(elts=[N("x")])
    K["Dict"] = lambda: ast.Dict(keys=[N("x")], values=[N("y")])
    K["ListComp"] = lambda: ast.ListComp(elt=N("x"), generators=gens(N("y")))
    K["SetComp"] = lambda: ast.SetComp(elt=N("x"), generators=gens(N("y")))
    K["DictComp"] = lambda: ast.DictComp(key=N("x"), value=N("z"), generators=gens(N("y")))
    K["GeneratorExp"] = lambda: ast.GeneratorExp(elt=N("x"), generators=gens(N("y")))
    K["Attribute"] = lambda: ast.Attribute(value=N("x"), attr="a", ctx=ast.Load())
    K["Subscript"] = lambda: ast.Subscript(value=N("x"), slice=N("y"), ctx=ast.Load())
    K["Call"] = lambda: ast.Call(func=N("x"), args=[], keywords=[])
    K["Await"] = lambda: ast.Await(value=N("x"))
    for op in BINOPS:
        K["BinOp_" + op.__name__] = lambda op=op: ast.BinOp(left=N("x"), op=op(), right=N("y"))
    for op in UNOPS:
        K["UnaryOp_" + op.__name__] = lambda op=op: ast.UnaryOp(op=op(), operand=N("x"))
    for op in BOOLOPS:
        K["BoolOp_" + op.__name__] = lambda op=op: ast.BoolOp(op=op(), values=[N("x"), N("y")])
    K["Compare"] = lambda: ast.Compare(left=N("x"), ops=[ast.Lt()], comparators=[N("y")])
    K["Compare_in"] = lambda: ast.Compare(left=N("x"), ops=[ast.In()], comparators=[N("y")])
    K["Compare_notin"] = lambda: ast.Compare(left=N("x"), ops=[ast.NotIn()], comparators=[N("y")])
    K["Compare_isnot"] = lambda: ast.Compare(left=N("x"), ops=[ast.IsNot()], comparators=[N("y")])
    K["IfExp"] = lambda: ast.IfExp(test=N("x"), body=N("y"), orelse=N("z"))
    K["Lambda"] = lambda: ast.Lambda(args=A0(), body=N("x"))
    K["NamedExpr"] = lambda: ast.NamedExpr(target=ast.Name(id="w", ctx=ast.Store()), value=N("x"))
    K["Yield"] = lambda: ast.Yield(value=N("x"))
    K["Yield0"] = lambda: ast.Yield(value=None)
    K["YieldFrom"] = lambda: ast.YieldFrom(value=N("x"))
    K["Starred"] = lambda: ast.Starred(value=N("x"), ctx=ast.Load())
    K["Slice"] = lambda: ast.Slice(lower=N("x"), upper=N("y"), step=None)
    # negative / special numeric constants by construction
    K["Const_negint"] = lambda: ast.UnaryOp(op=ast.USub(), operand=ast.Constant(value=1))
    return K


KNOWN_EXPR_CLASSES = {
    "BoolOp", "NamedExpr", "BinOp", "UnaryOp", "Lambda", "IfExp", "Dict", "Set", "ListComp", "SetComp", "DictComp", "GeneratorExp",
    "Await", "Yield", "YieldFrom", "Compare", "Call", "FormattedValue", "JoinedStr", "Constant", "Attribute", "Subscript", "Starred",
    "Name", "List", "Tuple", "Slice",
}
# expression classes of newer interpreters that this catalogue deliberately leaves to a stated gap
NEWER_EXPR_CLASSES = {"Interpolation", "TemplateStr"}
DEPRECATED = {"Num", "Str", "Bytes", "NameConstant", "Ellipsis", "Index", "ExtSlice"}


def check_complete():
    """fail closed when `ast` has an expression class the catalogue does not know"""
    have = set()
    for name in dir(ast):
        c = getattr(ast, name)
        if isinstance(c, type) and issubclass(c, ast.expr) and c is not ast.expr and name not in DEPRECATED and not name.startswith("_"):
            have.add(name)
    unknown = have - KNOWN_EXPR_CLASSES - NEWER_EXPR_CLASSES
    return sorted(unknown)


def slots():
    S = {}

    def add(name, f):
        S[name] = f

    add("List.elt", lambda c: ast.List(elts=[N("p"), c, N("q")], ctx=ast.Load()))
    add("Tuple.elt", lambda c: ast.Tuple(elts=[N("p"), c, N("q")], ctx=ast.Load()))
    add("Tuple1.elt", lambda c: ast.Tuple(elts=[c], ctx=ast.Load()))
    add("Set.elt", lambda c: ast.Set(elts=[N("p"), c]))
    add("Dict.key", lambda c: ast.Dict(keys=[c], values=[N("q")]))
    add("Dict.value", lambda c: ast.Dict(keys=[N("p")], values=[c]))
    add("Dict.unpack", lambda c: ast.Dict(keys=[None], values=[c]))
    add("Attribute.value", lambda c: ast.Attribute(value=c, attr="a", ctx=ast.Load()))
    add("Subscript.value", lambda c: ast.Subscript(value=c, slice=N("q"), ctx=ast.Load()))
    add("Subscript.slice", lambda c: ast.Subscript(value=N("p"), slice=c, ctx=ast.Load()))
    add("Subscript.slice.Tuple.elt", lambda c: ast.Subscript(value=N("p"), slice=ast.Tuple(elts=[c, N("q")], ctx=ast.Load()), ctx=ast.Load()))
    add("Slice.lower", lambda c: ast.Subscript(value=N("p"), slice=ast.Slice(lower=c, upper=None, step=None), ctx=ast.Load()))
    add("Slice.upper", lambda c: ast.Subscript(value=N("p"), slice=ast.Slice(lower=None, upper=c, step=None), ctx=ast.Load()))
    add("Slice.step", lambda c: ast.Subscript(value=N("p"), slice=ast.Slice(lower=None, upper=None, step=c), ctx=ast.Load()))
    add("Call.func", lambda c: ast.Call(func=c, args=[], keywords=[]))
    add("Call.onlyarg", lambda c: ast.Call(func=N("p"), args=[c], keywords=[]))
    add("Call.arg", lambda c: ast.Call(func=N("p"), args=[N("q"), c], keywords=[]))
    add("Call.arg_before_kw", lambda c: ast.Call(func=N("p"), args=[c], keywords=[ast.keyword(arg="k", value=N("q"))]))
    add("Call.kwvalue", lambda c: ast.Call(func=N("p"), args=[], keywords=[ast.keyword(arg="k", value=c)]))
    add("Call.kwunpack", lambda c: ast.Call(func=N("p"), args=[], keywords=[ast.keyword(arg=None, value=c)]))
    add("Starred.value", lambda c: ast.Call(func=N("p"), args=[ast.Starred(value=c, ctx=ast.Load())], keywords=[]))
    add("Starred.value@list", lambda c: ast.List(elts=[ast.Starred(value=c, ctx=ast.Load())], ctx=ast.Load()))
    add("Await.value", lambda c: ast.Await(value=c))
    for op in BINOPS:
        add("BinOp_%s.left" % op.__name__, lambda c, op=op: ast.BinOp(left=c, op=op(), right=N("q")))
        add("BinOp_%s.right" % op.__name__, lambda c, op=op: ast.BinOp(left=N("p"), op=op(), right=c))
    for op in UNOPS:
        add("UnaryOp_%s.operand" % op.__name__, lambda c, op=op: ast.UnaryOp(op=op(), operand=c))
    for op in BOOLOPS:
        add("BoolOp_%s.first" % op.__name__, lambda c, op=op: ast.BoolOp(op=op(), values=[c, N("q")]))
        add("BoolOp_%s.last" % op.__name__, lambda c, op=op: ast.BoolOp(op=op(), values=[N("p"), c]))
        add("BoolOp_%s.mid" % op.__name__, lambda c, op=op: ast.BoolOp(op=op(), values=[N("p"), c, N("q")]))
    add("Compare.left", lambda c: ast.Compare(left=c, ops=[ast.Lt()], comparators=[N("q")]))
    add("Compare.right", lambda c: ast.Compare(left=N("p"), ops=[ast.Lt()], comparators=[c]))
    add("Compare.mid", lambda c: ast.Compare(left=N("p"), ops=[ast.Lt(), ast.In()], comparators=[c, N("q")]))
    add("Compare.right_notin", lambda c: ast.Compare(left=N("p"), ops=[ast.NotIn()], comparators=[c]))
    add("IfExp.body", lambda c: ast.IfExp(test=N("p"), body=c, orelse=N("q")))
    add("IfExp.test", lambda c: ast.IfExp(test=c, body=N("p"), orelse=N("q")))
    add("IfExp.orelse", lambda c: ast.IfExp(test=N("p"), body=N("q"), orelse=c))
    add("Lambda.body", lambda c: ast.Lambda(args=A0(), body=c))
    add("Lambda.default", lambda c: ast.Lambda(args=A0(args=[ast.arg(arg="a")], defaults=[c]), body=N("q")))
    add("Lambda.kwdefault", lambda c: ast.Lambda(args=A0(kwonlyargs=[ast.arg(arg="a")], kw_defaults=[c]), body=N("q")))
    add("NamedExpr.value", lambda c: ast.NamedExpr(target=ast.Name(id="w", ctx=ast.Store()), value=c))
    add("Yield.value", lambda c: ast.Yield(value=c))
    add("YieldFrom.value", lambda c: ast.YieldFrom(value=c))
    for cn, mk in [
        ("ListComp", lambda e, g: ast.ListComp(elt=e, generators=g)),
        ("SetComp", lambda e, g: ast.SetComp(elt=e, generators=g)),
        ("GeneratorExp", lambda e, g: ast.GeneratorExp(elt=e, generators=g)),
    ]:
        add("%s.elt" % cn, lambda c, mk=mk: mk(c, gens()))
        add("%s.iter" % cn, lambda c, mk=mk: mk(N("p"), gens(it=c)))
        add("%s.if" % cn, lambda c, mk=mk: mk(N("p"), gens(ifs=[c])))
        add("%s.if2" % cn, lambda c, mk=mk: mk(N("p"), gens(ifs=[N("r"), c])))
        add("%s.iter2" % cn, lambda c, mk=mk: mk(N("p"), gens() + gens(it=c)))
    add("DictComp.key", lambda c: ast.DictComp(key=c, value=N("p"), generators=gens()))
    add("DictComp.value", lambda c: ast.DictComp(key=N("p"), value=c, generators=gens()))
    add("DictComp.iter", lambda c: ast.DictComp(key=N("p"), value=N("r"), generators=gens(it=c)))
    add("DictComp.if", lambda c: ast.DictComp(key=N("p"), value=N("r"), generators=gens(ifs=[c])))
    add("FormattedValue.value", lambda c: ast.JoinedStr(values=[ast.FormattedValue(value=c, conversion=-1, format_spec=None)]))
    add("FormattedValue.value+conv", lambda c: ast.JoinedStr(values=[ast.FormattedValue(value=c, conversion=114, format_spec=None)]))
    add("FormattedValue.value+spec", lambda c: ast.JoinedStr(values=[ast.FormattedValue(value=c, conversion=-1, format_spec=ast.JoinedStr(values=[ast.Constant(value=">3")]))]))
    add("FormattedValue.spec.value", lambda c: ast.JoinedStr(values=[ast.FormattedValue(value=N("p"), conversion=-1, format_spec=ast.JoinedStr(values=[ast.FormattedValue(value=c, conversion=-1, format_spec=None)]))]))
    return S


_SKIP_FIELDS = {"ctx", "kind", "type_comment", "lineno", "col_offset", "end_lineno", "end_col_offset"}


def norm(node):
    """structural form of a tree with FULL field comparison, ignoring ctx/kind/positions (the
    converter emits Name nodes without ctx; the parser fills it in)"""
    if isinstance(node, ast.Constant) and isinstance(node.value, (int, float)) and not isinstance(node.value, bool) and (node.value < 0 or (isinstance(node.value, float) and str(node.value)[0] == "-")):
        # a negative numeric constant exists only by construction (the converter emits
        # Constant(-1) as an index); its source form is the unary minus applied to the literal
        return ("UnaryOp", ("op", ("USub",)), ("operand", norm(ast.Constant(value=-node.value))))
    if isinstance(node, ast.JoinedStr):
        # the parser drops/introduces empty string parts and merges adjacent literal parts
        # (3.12 appends Constant('') to a format spec that ends with a field)
        vals = []
        for v in node.values:
            if isinstance(v, ast.Constant) and isinstance(v.value, str):
                if v.value == "":
                    continue
                if vals and isinstance(vals[-1], str):
                    vals[-1] = vals[-1] + v.value
                else:
                    vals.append(v.value)
            else:
                vals.append(v)
        return ("JoinedStr", ("values", tuple(("Constant", ("value", x)) if isinstance(x, str) else norm(x) for x in vals)))
    if isinstance(node, ast.AST):
        out = [type(node).__name__]
        for f in node._fields:
            if f in _SKIP_FIELDS:
                continue
            out.append((f, norm(getattr(node, f, None))))
        return tuple(out)
    if isinstance(node, list):
        return tuple(norm(x) for x in node)
    if isinstance(node, (int, float, complex)) and not isinstance(node, bool):
        return (type(node).__name__, repr(node))  # 1 vs 1.0 vs True, -0.0 vs 0.0, nan
    return node


def parse_expr(text):
    try:
        return ast.parse(text, mode="eval").body
    except (SyntaxError, ValueError, MemoryError, RecursionError):
        return None
