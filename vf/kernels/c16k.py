"""C16 kernel: the REAL oneliner/__main__.py source executed in-process (compiled from the tree
under test, __name__ == '__main__') with three stubs: parse_args returns a prepared namespace,
open is an in-memory file system recording every open with its mode, print records."""
import argparse
import io
import os
import random
import sys

from .. import rt
from . import c10k

SCRIPTS = [
    "x = 1\nif x:\n    print(x)\nelse:\n    print(0)\n",
    "i = 0\nwhile i < 3:\n    i += 1\n    if i == 2:\n        break\nprint(i)\n",
    "import math\nclass K:\n    v = math.floor(2.5)\nprint(K.v)\n",
]
OPTION_NAMES = ["unparser", "expr_wrapper", "if_style"]
LEGAL = c10k.LEGAL
DEFAULTS = c10k.DEFAULTS
REF = {}
MAIN_CODE = None
POOL = {}


def setup(nscripts):
    """called at harness import (not traced): compile main, reference table, pools"""
    global MAIN_CODE
    ol, cfgmod = c10k.fresh_import()
    p = os.path.join(rt.REPO, "oneliner", "__main__.py")
    with open(p, encoding="utf8") as f:
        MAIN_CODE = compile(f.read(), p, "exec")
    for si in range(nscripts + len(IO_FILES)):
        for u in LEGAL["unparser"]:
            for w in LEGAL["expr_wrapper"]:
                for i in LEGAL["if_style"]:
                    c = cfgmod.Configs()
                    c.unparser, c.expr_wrapper, c.if_style = u, w, i
                    random.seed(1)
                    REF[(si, u, w, i)] = c10k.alpha(ol.convert_code_string(decode_source(file_bytes(si)), configs=c))
    c = cfgmod.Configs()
    names = sorted(set(dir(c)) | set(OPTION_NAMES) | {"", "Unparser", " unparser", "unparser ", "unparse", "x", "config_names", "if-style"})
    values = sorted({v for n in OPTION_NAMES for v in LEGAL[n]} | {"", "x", " list", "List", "if_expr ", "ast.unparse=x"})
    seps = ["=", "", "==", " = ", "=x="]
    POOL.update(names=names, values=values, seps=seps)


# input files of the I/O dimension (bytes on disk) -- index >= len(SCRIPTS)
IO_FILES = [
    "s = 'h\u00e9llo \u4e16\u754c'\n\u00f1 = len(s)\nprint(s, \u00f1)\n".encode("utf-8"),  # non-ASCII literals and identifier
    b"\xef\xbb\xbf" + SCRIPTS[0].encode("utf-8"),  # UTF-8 BOM
    SCRIPTS[1].replace("\n", "\r\n").encode("utf-8")[:-2],  # CRLF line ends, no trailing newline
    b"# -*- coding: latin-1 -*-\nprint(len('\xe9'), '\xe9' == chr(233))\n",  # PEP 263 coding line
    (SCRIPTS[0] + "# padding comment line so that the file is larger than one I/O buffer\n" * 200 + "print('tail')\n").encode("utf-8"),  # > io.DEFAULT_BUFFER_SIZE
]
OUT_KINDS = ["stdout", "new file", "existing longer file", "the input file itself", "the input file under another spelling"]
IO_ARGS = [[], ["expr_wrapper=list"], ["expr_wrapper=bogus"], ["if_style=short_circuit", "unparser=oneliner"], ["if_style=short_circuit", "unparser"]]
OLD_CONTENT = ("# previous content " * 400).encode("utf-8")


def file_bytes(si):
    return SCRIPTS[si].encode("utf-8") if si < len(SCRIPTS) else IO_FILES[si - len(SCRIPTS)]


def decode_source(data):
    """the text Python itself sees for a source file with these bytes"""
    import tokenize

    enc, _ = tokenize.detect_encoding(io.BytesIO(data).readline)
    return io.TextIOWrapper(io.BytesIO(data), encoding=enc).read()


class FS:
    """in-memory file system: bytes on disk, open() with the truncation / append / in-place
    semantics of the real modes, every open recorded"""

    def __init__(self, script_bytes):
        self.events = []
        self.files = {"in.py": script_bytes, "old.txt": OLD_CONTENT}

    @staticmethod
    def norm(name):
        return os.path.normpath(os.fspath(name))

    def _read_text(self, name, encoding, newline):
        text = self.files[name].decode(encoding or "utf-8")
        if newline is None:
            text = text.replace("\r\n", "\n").replace("\r", "\n")
        return text

    def _lazy_reader(self, name, head_len, decode):
        """a reader whose first `head_len` bytes are fetched when the file is opened (what a
        buffered reader has already pulled in) and whose remainder is fetched at read() time --
        from whatever the file contains THEN (it may have been truncated in between)"""
        fs = self
        head = fs.files[name][:head_len]

        class R:
            def __enter__(s):
                return s

            def __exit__(s, *a):
                return False

            def read(s, n=-1):
                data = head + fs.files.get(name, b"")[len(head) :] if len(head) == head_len else head
                return decode(data)

            def close(s):
                pass

        return R()

    def tokenize_open(self, name):
        name = self.norm(name)
        self.events.append((name, "r"))
        if name not in self.files:
            raise FileNotFoundError(name)
        # tokenize.open() reads the first lines to detect the encoding: the buffered reader
        # underneath has pulled in the first io.DEFAULT_BUFFER_SIZE bytes by then
        return self._lazy_reader(name, io.DEFAULT_BUFFER_SIZE, decode_source)

    def open(self, name, mode="r", buffering=-1, encoding=None, errors=None, newline=None, **kw):
        name = self.norm(name)
        binary = "b" in mode
        writing = "w" in mode or "a" in mode or "x" in mode or "+" in mode
        self.events.append((name, "r" if not writing else mode))
        if not writing:
            if name not in self.files:
                raise FileNotFoundError(name)
            if binary:
                return self._lazy_reader(name, 0, lambda d: d)

            def dec(d):
                text = d.decode(encoding or "utf-8")
                return text.replace("\r\n", "\n").replace("\r", "\n") if newline is None else text

            return self._lazy_reader(name, 0, dec)
        if "x" in mode and name in self.files:
            raise FileExistsError(name)
        if "r" in mode and name not in self.files:
            raise FileNotFoundError(name)
        fs = self
        if "w" in mode or "x" in mode:
            fs.files[name] = b""  # truncated at open time
            start = 0
        elif "a" in mode:
            fs.files.setdefault(name, b"")
            start = len(fs.files[name])
        else:  # r+
            start = 0

        class W:
            def __init__(s):
                s.pos = start

            def __enter__(s):
                return s

            def __exit__(s, *a):
                return False

            def write(s, t):
                data = t if binary else t.encode(encoding or "utf-8")
                cur = fs.files[name]
                fs.files[name] = cur[: s.pos] + data + cur[s.pos + len(data) :]
                s.pos += len(data)
                return len(t)

            def read(s):
                return fs.files[name] if binary else fs.files[name].decode(encoding or "utf-8")

            def truncate(s, size=None):
                fs.files[name] = fs.files[name][: s.pos if size is None else size]

            def seek(s, p, whence=0):
                s.pos = p if whence == 0 else (len(fs.files[name]) if whence == 2 else s.pos + p)

            def flush(s):
                pass

            def close(s):
                pass

        return W()


def _realize(x):
    try:
        from crosshair.core import deep_realize

        return deep_realize(x)
    except Exception:
        return x


def out_name(outk):
    return [None, "out.txt", "old.txt", "in.py", "./in.py"][outk]


def run_main(c_args, use_out, dep_unparser, si, argv=None):
    """execute the real main script with the stubs; returns (error type name or None, fs, printed).
    With `argv` the REAL argparse parser runs on that command line (order and spelling of the
    options matter); otherwise parse_args is stubbed with a prepared namespace."""
    ol, cfgmod = c10k.fresh_import()
    real_convert = ol.convert_code_string

    def convert_stub(script, filename="<string>", configs=None):
        # the conversion itself is concrete (C01..C15 are about it): realise the option values the
        # script stored and run the real function untraced
        with rt.NoTracing():
            c = cfgmod.Configs()
            if configs is not None:
                for n in OPTION_NAMES:
                    setattr(c, n, _realize(getattr(configs, n)))
            random.seed(1)
            return real_convert(_realize(script), configs=c)

    ol.convert_code_string = convert_stub
    import tokenize

    fs = FS(file_bytes(si))
    printed = []
    ns = argparse.Namespace(C=(list(c_args) if c_args else None), input_filename="in.py", output=out_name(int(use_out)), unparser=dep_unparser)
    g = {"__name__": "__main__", "open": fs.open, "print": lambda *a, **k: printed.append(a)}
    old = argparse.ArgumentParser.parse_args
    old_argv = sys.argv
    if argv is None:
        argparse.ArgumentParser.parse_args = lambda self, *a, **k: ns
    else:
        sys.argv = ["oneliner"] + list(argv)
    old_tok = tokenize.open
    tokenize.open = fs.tokenize_open
    err = None
    try:
        import warnings

        with warnings.catch_warnings():
            warnings.simplefilter("ignore")
            exec(MAIN_CODE, g, g)
    except Exception as e:
        err = type(e).__name__
    except SystemExit as e:
        err = "SystemExit" if e.code not in (0, None) else None
    finally:
        argparse.ArgumentParser.parse_args = old
        sys.argv = old_argv
        tokenize.open = old_tok
        ol.convert_code_string = real_convert
    return err, fs, printed


def spec(c_args, dep_unparser):
    """reference CLI specification: returns the option triple, or None if any argument is
    malformed / unknown / illegal.  Written without str.split."""
    t = dict(DEFAULTS)
    for a in c_args:
        eq = 0
        pos = -1
        k = 0
        for ch in a:
            if ch == "=":
                eq += 1
                if pos < 0:
                    pos = k
            k += 1
        if eq != 1:
            return None
        name = a[:pos]
        value = a[pos + 1 :]
        found = None
        for n in OPTION_NAMES:
            if name == n:
                found = n
        if found is None:
            return None
        okv = None
        for v in LEGAL[found]:
            if value == v:
                okv = v
        if okv is None:
            return None
        t[found] = okv
    if dep_unparser is not None:
        t["unparser"] = dep_unparser
    return t


def check(c_args, use_out, dep_unparser, si, argv=None):
    """use_out: bool (stdout / new file) or an index into OUT_KINDS"""
    if isinstance(use_out, int) and not isinstance(use_out, bool):
        outk = use_out
    else:
        outk = 1 if rt.pick_bool(use_out) else 0
    err, fs, printed = run_main(c_args, outk, dep_unparser, si, argv)
    t = spec(c_args, dep_unparser)
    with rt.NoTracing():
        before = {"in.py": file_bytes(si), "old.txt": OLD_CONTENT}
        target = FS.norm(out_name(outk)) if outk else None
        wrote = [e for e in fs.events if e[1] != "r"]
        untouched = all(fs.files.get(n) == v for n, v in before.items() if n != target) and all(n in before or n == target for n in fs.files)
    if t is None:
        # must abort before any output file is created or truncated, and print no result
        return err is not None and not wrote and len(printed) == 0 and fs.files == before
    if err is not None:
        return False
    with rt.NoTracing():
        want = REF[(si, _realize(t["unparser"]), _realize(t["expr_wrapper"]), _realize(t["if_style"]))]
        if outk:
            data = fs.files.get(target)
            try:
                got = None if data is None else data.decode("utf-8")
            except UnicodeDecodeError:
                got = None
            ok_io = len(printed) == 0 and len(wrote) == 1 and wrote[0][0] == target and untouched
        else:
            got = printed[0][0] if len(printed) == 1 and len(printed[0]) == 1 else None
            ok_io = not wrote and untouched
        return ok_io and got is not None and c10k.alpha(_realize(got)) == want


def k_io(sc, outk, ai):
    """I/O dimension: every input file kind x every output situation x a few option lists"""
    sc = rt.pick(sc, len(SCRIPTS) + len(IO_FILES))
    outk = rt.pick(outk, len(OUT_KINDS))
    ai = rt.pick(ai, len(IO_ARGS))
    with rt.NoTracing():
        return check(list(IO_ARGS[ai]), int(outk), None, int(sc))


def k_free(a, use_out):
    return check([a], use_out, None, 0)


def k_value(v, use_out):
    return check(["expr_wrapper=" + v], use_out, None, 0)


def k_name(n, use_out):
    return check([n + "=list"], use_out, None, 0)


def k_pool(ni, si, vi, use_out, dep, sc):
    ni = rt.pick(ni, len(POOL["names"]))
    si = rt.pick(si, len(POOL["seps"]))
    vi = rt.pick(vi, len(POOL["values"]))
    dep = rt.pick(dep, 3)
    sc = rt.pick(sc, len(SCRIPTS))
    use_out = rt.pick_bool(use_out)
    with rt.NoTracing():
        a = POOL["names"][ni] + POOL["seps"][si] + POOL["values"][vi]
        return check([a], use_out, [None, "ast.unparse", "oneliner"][dep], sc)


# white space of every kind around an otherwise legal name / value must be refused, not stripped
# (str.strip, str.split, \\s and a `$` that matches before a final newline all differ here)
WS = ["\n", "\r", "\t", " ", "\x0b", "\x0c", "\x1c", "\x85", "\u2028", "\u3000", "\r\n"]
WS_PAIRS = [("unparser", "oneliner"), ("expr_wrapper", "list"), ("if_style", "short_circuit")]


def ws_arg(pi, wi, pos):
    n, v = WS_PAIRS[pi]
    w = WS[wi]
    return [w + n + "=" + v, n + w + "=" + v, n + "=" + w + v, n + "=" + v + w][pos]


def k_ws(pi, wi, pos, use_out):
    pi = rt.pick(pi, len(WS_PAIRS))
    wi = rt.pick(wi, len(WS))
    pos = rt.pick(pos, 4)
    use_out = rt.pick_bool(use_out)
    with rt.NoTracing():
        return check([ws_arg(pi, wi, pos)], use_out, None, 0)


# order and spelling on the real command line: the deprecated --unparser is applied AFTER every -C,
# wherever it is written; -Cname=value attached or separate; -o before or after FILE
ORDER_FORMS = 8


def order_argv(vi, di, form, use_out):
    v = LEGAL["unparser"][vi]
    d = LEGAL["unparser"][di]
    c_sep = ["-C", "unparser=" + v]
    c_att = ["-Cunparser=" + v]
    dep_sep = ["--unparser", d]
    dep_eq = ["--unparser=" + d]
    out = ["-o", "out.txt"] if use_out else []
    forms = [
        ["in.py"] + c_sep + dep_sep + out,
        ["in.py"] + dep_sep + c_sep + out,
        dep_eq + c_att + ["in.py"] + out,
        c_att + out + dep_eq + ["in.py"],
        out + dep_sep + ["in.py"] + c_sep + ["-C", "if_style=short_circuit"],
        ["-C", "if_style=short_circuit"] + dep_eq + ["in.py"] + c_sep + out,
        dep_sep + ["in.py"] + out,
        out + ["in.py"] + c_att,
    ]
    argv = forms[form]
    c_args = [a[2:] if a.startswith("-C") and len(a) > 2 else a for a in argv]
    cs = []
    k = 0
    while k < len(argv):
        if argv[k] == "-C":
            cs.append(argv[k + 1])
            k += 2
        elif argv[k].startswith("-C"):
            cs.append(argv[k][2:])
            k += 1
        else:
            k += 1
    dep = d if any(a.startswith("--unparser") for a in argv) else None
    return argv, cs, dep


def k_order(vi, di, form, use_out):
    vi = rt.pick(vi, 2)
    di = rt.pick(di, 2)
    form = rt.pick(form, ORDER_FORMS)
    use_out = rt.pick_bool(use_out)
    with rt.NoTracing():
        argv, cs, dep = order_argv(vi, di, form, use_out)
        return check(cs, bool(use_out), dep, 1, argv)


def k_two(n1, v1, n2, v2, use_out):
    names = OPTION_NAMES + ["x"]
    n1 = rt.pick(n1, 4)
    n2 = rt.pick(n2, 4)
    v1 = rt.pick(v1, len(POOL["values"]))
    v2 = rt.pick(v2, len(POOL["values"]))
    use_out = rt.pick_bool(use_out)
    with rt.NoTracing():
        a = names[n1] + "=" + POOL["values"][v1]
        b = names[n2] + "=" + POOL["values"][v2]
        return check([a, b], use_out, None, 1)
