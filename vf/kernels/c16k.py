"""C16 kernel: the REAL oneliner/__main__.py source executed in-process (compiled from the tree
under test, __name__ == '__main__') with three stubs: parse_args returns a prepared namespace,
open is an in-memory file system recording every open with its mode, print records."""
import argparse
import io
import os
import random
import sys

from .. import rt
from . import c10k

SCRIPTS = [
    "x = 1\nif x:\n    print(x)\nelse:\n    print(0)\n",
    "i = 0\nwhile i < 3:\n    i += 1\n    if i == 2:\n        break\nprint(i)\n",
    "import math\nclass K:\n    v = math.floor(2.5)\nprint(K.v)\n",
]
OPTION_NAMES = ["unparser", "expr_wrapper", "if_style"]
LEGAL = c10k.LEGAL
DEFAULTS = c10k.DEFAULTS
REF = {}
MAIN_CODE = None
POOL = {}


def setup(nscripts):
    """called at harness import (not traced): compile main, reference table, pools"""
    global MAIN_CODE
    ol, cfgmod = c10k.fresh_import()
    p = os.path.join(rt.REPO, "oneliner", "__main__.py")
    with open(p, encoding="utf8") as f:
        MAIN_CODE = compile(f.read(), p, "exec")
    for si in range(nscripts):
        for u in LEGAL["unparser"]:
            for w in LEGAL["expr_wrapper"]:
                for i in LEGAL["if_style"]:
                    c = cfgmod.Configs()
                    c.unparser, c.expr_wrapper, c.if_style = u, w, i
                    random.seed(1)
                    REF[(si, u, w, i)] = c10k.alpha(ol.convert_code_string(SCRIPTS[si], configs=c))
    c = cfgmod.Configs()
    names = sorted(set(dir(c)) | set(OPTION_NAMES) | {"", "Unparser", " unparser", "unparser ", "unparse", "x", "config_names", "if-style"})
    values = sorted({v for n in OPTION_NAMES for v in LEGAL[n]} | {"", "x", " list", "List", "if_expr ", "ast.unparse=x"})
    seps = ["=", "", "==", " = ", "=x="]
    POOL.update(names=names, values=values, seps=seps)


class FS:
    def __init__(self, script):
        self.events = []
        self.files = {"in.py": script}

    def open(self, name, mode="r", encoding=None, **kw):
        self.events.append((name, mode))
        if "w" in mode or "a" in mode or "x" in mode or "+" in mode:
            fs = self
            buf = io.StringIO()
            fs.files[name] = ""

            class W:
                def __enter__(s):
                    return s

                def __exit__(s, *a):
                    fs.files[name] = buf.getvalue()
                    return False

                def write(s, t):
                    buf.write(t)

                def close(s):
                    fs.files[name] = buf.getvalue()

            return W()
        if name not in self.files:
            raise FileNotFoundError(name)
        return io.StringIO(self.files[name])


def _realize(x):
    try:
        from crosshair.core import deep_realize

        return deep_realize(x)
    except Exception:
        return x


def run_main(c_args, use_out, dep_unparser, si):
    """execute the real main script with the stubs; returns (error type name or None, fs, printed)"""
    ol, cfgmod = c10k.fresh_import()
    real_convert = ol.convert_code_string

    def convert_stub(script, filename="<string>", configs=None):
        # the conversion itself is concrete (C01..C15 are about it): realise the option values the
        # script stored and run the real function untraced
        with rt.NoTracing():
            c = cfgmod.Configs()
            if configs is not None:
                for n in OPTION_NAMES:
                    setattr(c, n, _realize(getattr(configs, n)))
            random.seed(1)
            return real_convert(_realize(script), configs=c)

    ol.convert_code_string = convert_stub
    fs = FS(SCRIPTS[si])
    printed = []
    ns = argparse.Namespace(C=(list(c_args) if c_args else None), input_filename="in.py", output=("out.txt" if use_out else None), unparser=dep_unparser)
    g = {"__name__": "__main__", "open": fs.open, "print": lambda *a, **k: printed.append(a)}
    old = argparse.ArgumentParser.parse_args
    argparse.ArgumentParser.parse_args = lambda self, *a, **k: ns
    err = None
    try:
        import warnings

        with warnings.catch_warnings():
            warnings.simplefilter("ignore")
            exec(MAIN_CODE, g, g)
    except Exception as e:
        err = type(e).__name__
    finally:
        argparse.ArgumentParser.parse_args = old
        ol.convert_code_string = real_convert
    return err, fs, printed


def spec(c_args, dep_unparser):
    """reference CLI specification: returns the option triple, or None if any argument is
    malformed / unknown / illegal.  Written without str.split."""
    t = dict(DEFAULTS)
    for a in c_args:
        eq = 0
        pos = -1
        k = 0
        for ch in a:
            if ch == "=":
                eq += 1
                if pos < 0:
                    pos = k
            k += 1
        if eq != 1:
            return None
        name = a[:pos]
        value = a[pos + 1 :]
        found = None
        for n in OPTION_NAMES:
            if name == n:
                found = n
        if found is None:
            return None
        okv = None
        for v in LEGAL[found]:
            if value == v:
                okv = v
        if okv is None:
            return None
        t[found] = okv
    if dep_unparser is not None:
        t["unparser"] = dep_unparser
    return t


def check(c_args, use_out, dep_unparser, si):
    use_out = rt.pick_bool(use_out)
    err, fs, printed = run_main(c_args, use_out, dep_unparser, si)
    t = spec(c_args, dep_unparser)
    wrote = False
    for _, m in fs.events:
        if m != "r":
            wrote = True
    if t is None:
        # must abort before any output file is created or truncated, and print no result
        return err is not None and not wrote and len(printed) == 0
    if err is not None:
        return False
    with rt.NoTracing():
        want = REF[(si, _realize(t["unparser"]), _realize(t["expr_wrapper"]), _realize(t["if_style"]))]
        if use_out:
            got = fs.files.get("out.txt")
            ok_io = len(printed) == 0 and [e for e in fs.events if e[1] != "r"] == [("out.txt", "w")]
        else:
            got = printed[0][0] if len(printed) == 1 and len(printed[0]) == 1 else None
            ok_io = not wrote
        return ok_io and got is not None and c10k.alpha(_realize(got)) == want


def k_free(a, use_out):
    return check([a], use_out, None, 0)


def k_value(v, use_out):
    return check(["expr_wrapper=" + v], use_out, None, 0)


def k_name(n, use_out):
    return check([n + "=list"], use_out, None, 0)


def k_pool(ni, si, vi, use_out, dep, sc):
    ni = rt.pick(ni, len(POOL["names"]))
    si = rt.pick(si, len(POOL["seps"]))
    vi = rt.pick(vi, len(POOL["values"]))
    dep = rt.pick(dep, 3)
    sc = rt.pick(sc, len(SCRIPTS))
    use_out = rt.pick_bool(use_out)
    with rt.NoTracing():
        a = POOL["names"][ni] + POOL["seps"][si] + POOL["values"][vi]
        return check([a], use_out, [None, "ast.unparse", "oneliner"][dep], sc)


def k_two(n1, v1, n2, v2, use_out):
    names = OPTION_NAMES + ["x"]
    n1 = rt.pick(n1, 4)
    n2 = rt.pick(n2, 4)
    v1 = rt.pick(v1, len(POOL["values"]))
    v2 = rt.pick(v2, len(POOL["values"]))
    use_out = rt.pick_bool(use_out)
    with rt.NoTracing():
        a = names[n1] + "=" + POOL["values"][v1]
        b = names[n2] + "=" + POOL["values"][v2]
        return check([a, b], use_out, None, 1)
