"""C04 unit kernels: the REAL get_unescaped_str / expr_unparse of the tree under test with one
symbolic character in each literal position; the emitted text is decoded by the reference decoder
(vf.models.litmodel), executed symbolically as well."""
import ast
import importlib
import sys

from .. import rt
from ..models.litmodel import decode, scan_fstring

# imported at module import time (CrossHair restores sys.path before analysing the conditions)
if sys.path[0] != rt.REPO:
    sys.path.insert(0, rt.REPO)
for _m in [m for m in sys.modules if m == "oneliner" or m.startswith("oneliner.")]:
    del sys.modules[_m]
U = importlib.import_module("oneliner.expr_unparse")
import os as _os

if not _os.path.realpath(U.__file__).startswith(_os.path.realpath(rt.REPO) + "/"):
    raise ImportError("oneliner imported from %s, not from the tree under test %s" % (U.__file__, rt.REPO))


def _clean(t):
    """no raw line break, no raw surrogate (the text must be encodable)"""
    for ch in t:
        o = ord(ch)
        if ch == "\n" or ch == "\r":
            return False
        if 0xD800 <= o <= 0xDFFF:
            return False
    return True


def k_escape(c, dq):
    qm = '"' if dq else "'"
    t = U.get_unescaped_str(c, qm)
    return _clean(t) and decode(t, qm) == c


def k_escape_selfdelimiting(c, dq):
    """one lexical unit per character: embedded between two other characters (a hex digit after
    it must not be swallowed by an escape) the string still decodes -- lifts the per-character
    result to strings of every length"""
    qm = '"' if dq else "'"
    s = "a" + c + "1"
    t = U.get_unescaped_str(s, qm)
    return _clean(t) and decode(t, qm) == s


def k_constant(c):
    t = U.expr_unparse(ast.Constant(value="x" + c))
    if len(t) < 2:
        return False
    q = t[0]
    if (q != "'" and q != '"') or t[-1] != q:
        return False
    return _clean(t) and decode(t[1:-1], q) == "x" + c


def _x():
    return ast.Name(id="x", ctx=ast.Load())


def k_fstring_lit_before(c):
    tree = ast.JoinedStr(values=[ast.Constant(value=c), ast.FormattedValue(value=_x(), conversion=-1, format_spec=None)])
    t = U.expr_unparse(tree)
    return _clean(t) and scan_fstring(t) == [("lit", c), ("field", "x", None, None)]


def k_fstring_lit_after(c):
    tree = ast.JoinedStr(values=[ast.FormattedValue(value=_x(), conversion=114, format_spec=None), ast.Constant(value=c + "z")])
    t = U.expr_unparse(tree)
    return _clean(t) and scan_fstring(t) == [("field", "x", "r", None), ("lit", c + "z")]


def k_fstring_spec_lit(c):
    w = ast.Name(id="w", ctx=ast.Load())
    spec = ast.JoinedStr(values=[ast.Constant(value=c), ast.FormattedValue(value=w, conversion=-1, format_spec=None), ast.Constant(value="d")])
    tree = ast.JoinedStr(values=[ast.Constant(value="a"), ast.FormattedValue(value=_x(), conversion=-1, format_spec=spec)])
    t = U.expr_unparse(tree)
    want = [("lit", "a"), ("field", "x", None, [("lit", c), ("field", "w", None, None), ("lit", "d")])]
    return _clean(t) and scan_fstring(t) == want


def _nested_ok(e, c, outer_q):
    # expression text must be d[<string literal of c in the other quote>]
    if len(e) < 5 or e[:2] != "d[" or e[-1] != "]":
        return False
    inner = e[2:-1]
    q = inner[0]
    if q != "'" and q != '"':
        return False
    return inner[-1] == q and q != outer_q and decode(inner[1:-1], q) == c


def k_fstring_nested_const(c):
    d = ast.Name(id="d", ctx=ast.Load())
    tree = ast.JoinedStr(values=[ast.FormattedValue(value=ast.Subscript(value=d, slice=ast.Constant(value=c), ctx=ast.Load()), conversion=-1, format_spec=None)])
    t = U.expr_unparse(tree)
    got = scan_fstring(t)
    if not _clean(t) or got is None or len(got) != 1 or got[0][0] != "field":
        return False
    return got[0][2] is None and got[0][3] is None and _nested_ok(got[0][1], c, t[1])


def k_dict_key_in_field(c):
    tree = ast.JoinedStr(values=[ast.FormattedValue(value=ast.Dict(keys=[ast.Constant(value=c)], values=[_x()]), conversion=-1, format_spec=None)])
    t = U.expr_unparse(tree)
    got = scan_fstring(t)
    if not _clean(t) or got is None or len(got) != 1 or got[0][0] != "field":
        return False
    e = got[0][1]
    if len(e) < 6 or e[0] != "{" or e[-3:] != ":x}":
        return False
    inner = e[1:-3]
    q = inner[0]
    return (q == "'" or q == '"') and inner[-1] == q and q != t[1] and decode(inner[1:-1], q) == c


def k_bytes(b):
    b = rt.pick(b, 256)
    with rt.NoTracing():
        v = bytes([120, b])
        t = U.expr_unparse(ast.Constant(value=v))
        try:
            back = ast.literal_eval(t)
        except Exception:
            return False
        return back == v and "\n" not in t and "\r" not in t


KERNELS = {
    # name: (function, params, pre)
    "escape": (k_escape, [("c", "str"), ("dq", "bool")], "len(c) == 1"),
    "escape_selfdelimiting": (k_escape_selfdelimiting, [("c", "str"), ("dq", "bool")], "len(c) == 1"),
    "constant": (k_constant, [("c", "str")], "len(c) == 1"),
    "fstring_lit_before": (k_fstring_lit_before, [("c", "str")], "len(c) == 1"),
    "fstring_lit_after": (k_fstring_lit_after, [("c", "str")], "len(c) == 1"),
    # a brace inside a format-spec literal is only expressible through an escape (f'{x:\\x7d}') and
    # CPython's own ast.unparse mis-renders it too: known finding KF-C04-SPECBRACE, excluded here
    "fstring_spec_lit": (k_fstring_spec_lit, [("c", "str")], "len(c) == 1 and c != chr(123) and c != chr(125)"),
    "fstring_nested_const": (k_fstring_nested_const, [("c", "str")], "len(c) == 1"),
    "dict_key_in_field": (k_dict_key_in_field, [("c", "str")], "len(c) == 1"),
    "bytes": (k_bytes, [("b", "int")], "0 <= b <= 255"),
}
