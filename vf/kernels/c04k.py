"""C04 unit kernels: the REAL get_unescaped_str / expr_unparse of the tree under test with one
symbolic character in each literal position; the emitted text is decoded by the reference decoder
(vf.models.litmodel), executed symbolically as well."""
import ast
import importlib
import sys

from .. import rt
from ..models.litmodel import decode, scan_fstring

# imported at module import time (CrossHair restores sys.path before analysing the conditions)
if sys.path[0] != rt.REPO:
    sys.path.insert(0, rt.REPO)
for _m in [m for m in sys.modules if m == "oneliner" or m.startswith("oneliner.")]:
    del sys.modules[_m]
U = importlib.import_module("oneliner.expr_unparse")
import os as _os

if not _os.path.realpath(U.__file__).startswith(_os.path.realpath(rt.REPO) + "/"):
    raise ImportError("oneliner imported from %s, not from the tree under test %s" % (U.__file__, rt.REPO))


def _clean(t):
    """no raw line break, no raw surrogate (the text must be encodable)"""
    for ch in t:
        o = ord(ch)
        if ch == "\n" or ch == "\r":
            return False
        if 0xD800 <= o <= 0xDFFF:
            return False
    return True


def k_escape(c, dq):
    qm = '"' if dq else "'"
    t = U.get_unescaped_str(c, qm)
    return _clean(t) and decode(t, qm) == c


def k_escape_selfdelimiting(c, dq):
    """one lexical unit per character: embedded between two other characters (a hex digit after
    it must not be swallowed by an escape) the string still decodes -- lifts the per-character
    result to strings of every length"""
    qm = '"' if dq else "'"
    s = "a" + c + "1"
    t = U.get_unescaped_str(s, qm)
    return _clean(t) and decode(t, qm) == s


def k_constant(c):
    t = U.expr_unparse(ast.Constant(value="x" + c))
    if len(t) < 2:
        return False
    q = t[0]
    if (q != "'" and q != '"') or t[-1] != q:
        return False
    return _clean(t) and decode(t[1:-1], q) == "x" + c


def _x():
    return ast.Name(id="x", ctx=ast.Load())


def k_fstring_lit_before(c):
    tree = ast.JoinedStr(values=[ast.Constant(value=c), ast.FormattedValue(value=_x(), conversion=-1, format_spec=None)])
    t = U.expr_unparse(tree)
    return _clean(t) and scan_fstring(t) == [("lit", c), ("field", "x", None, None)]


def k_fstring_lit_after(c):
    tree = ast.JoinedStr(values=[ast.FormattedValue(value=_x(), conversion=114, format_spec=None), ast.Constant(value=c + "z")])
    t = U.expr_unparse(tree)
    return _clean(t) and scan_fstring(t) == [("field", "x", "r", None), ("lit", c + "z")]


def k_fstring_spec_lit(c):
    w = ast.Name(id="w", ctx=ast.Load())
    spec = ast.JoinedStr(values=[ast.Constant(value=c), ast.FormattedValue(value=w, conversion=-1, format_spec=None), ast.Constant(value="d")])
    tree = ast.JoinedStr(values=[ast.Constant(value="a"), ast.FormattedValue(value=_x(), conversion=-1, format_spec=spec)])
    t = U.expr_unparse(tree)
    want = [("lit", "a"), ("field", "x", None, [("lit", c), ("field", "w", None, None), ("lit", "d")])]
    return _clean(t) and scan_fstring(t) == want


def _nested_ok(e, c, outer_q):
    # expression text must be d[<string literal of c in the other quote>]
    if len(e) < 5 or e[:2] != "d[" or e[-1] != "]":
        return False
    inner = e[2:-1]
    q = inner[0]
    if q != "'" and q != '"':
        return False
    return inner[-1] == q and q != outer_q and decode(inner[1:-1], q) == c


def k_fstring_nested_const(c):
    d = ast.Name(id="d", ctx=ast.Load())
    tree = ast.JoinedStr(values=[ast.FormattedValue(value=ast.Subscript(value=d, slice=ast.Constant(value=c), ctx=ast.Load()), conversion=-1, format_spec=None)])
    t = U.expr_unparse(tree)
    got = scan_fstring(t)
    if not _clean(t) or got is None or len(got) != 1 or got[0][0] != "field":
        return False
    return got[0][2] is None and got[0][3] is None and _nested_ok(got[0][1], c, t[1])


def k_dict_key_in_field(c):
    tree = ast.JoinedStr(values=[ast.FormattedValue(value=ast.Dict(keys=[ast.Constant(value=c)], values=[_x()]), conversion=-1, format_spec=None)])
    t = U.expr_unparse(tree)
    got = scan_fstring(t)
    if not _clean(t) or got is None or len(got) != 1 or got[0][0] != "field":
        return False
    e = got[0][1]
    if len(e) < 6 or e[0] != "{" or e[-3:] != ":x}":
        return False
    inner = e[1:-3]
    q = inner[0]
    return (q == "'" or q == '"') and inner[-1] == q and q != t[1] and decode(inner[1:-1], q) == c


def k_bytes(b):
    b = rt.pick(b, 256)
    with rt.NoTracing():
        v = bytes([120, b])
        t = U.expr_unparse(ast.Constant(value=v))
        try:
            back = ast.literal_eval(t)
        except Exception:
            return False
        return back == v and "\n" not in t and "\r" not in t


# sequences over an alphabet of the characters / bytes that interact with quoting and escaping
# (adjacency matters: a backslash next to a quote, a quote next to the delimiter, CR LF, ...), at
# every literal depth: bare, in an f-string field (!r), in a display inside a field, in a nested
# f-string.  Selector slices: every path is concrete after the picks.
BYTE_ALPHABET = [0x27, 0x22, 0x5C, 0x0A, 0x0D, 0x00, 0x7F, 0x80, 0xFF, 0x61, 0x7B, 0x7D]
STR_ALPHABET = ["'", '"', chr(92), chr(10), chr(13), chr(0), chr(0x7F), chr(0x85), chr(0x2028), "a", "{", "}", chr(0xD800), chr(0x1F600), chr(0x0C), chr(0x1C)]
SEQ_DEPTHS = 4


def _at_depth(node, depth):
    def fv(v, conv=114):
        return ast.JoinedStr(values=[ast.FormattedValue(value=v, conversion=conv, format_spec=None)])

    if depth == 0:
        return node
    if depth == 1:
        return fv(node)
    if depth == 2:
        return fv(ast.List(elts=[node], ctx=ast.Load()), -1)
    return fv(fv(node), -1)


def _expected_at_depth(v, depth):
    if depth == 0:
        return v
    if depth == 1:
        return repr(v)
    if depth == 2:
        return str([v])
    return repr(v)


def _seq_ok(v, depth):
    tree = _at_depth(ast.Constant(value=v), depth)
    ast.fix_missing_locations(tree)
    t = U.expr_unparse(tree)
    if "\n" in t or "\r" in t:
        return False
    try:
        back = ast.parse(t, mode="eval").body
        got = eval(compile(ast.Expression(body=back), "<lit>", "eval"), {})
    except Exception:
        return False
    consts = [n.value for n in ast.walk(back) if isinstance(n, ast.Constant) and type(n.value) is type(v)]
    return got == _expected_at_depth(v, depth) and type(got) is type(_expected_at_depth(v, depth)) and v in consts


def k_bytes_seq(i0, i1, i2, n, depth):
    n = rt.pick(n, 4)
    depth = rt.pick(depth, SEQ_DEPTHS)
    idx = [rt.pick(i, len(BYTE_ALPHABET)) for i in (i0, i1, i2)[:n]]
    with rt.NoTracing():
        return _seq_ok(bytes(BYTE_ALPHABET[i] for i in idx), depth)


def k_str_seq(i0, i1, i2, n, depth):
    n = rt.pick(n, 4)
    depth = rt.pick(depth, SEQ_DEPTHS)
    idx = [rt.pick(i, len(STR_ALPHABET)) for i in (i0, i1, i2)[:n]]
    with rt.NoTracing():
        return _seq_ok("".join(STR_ALPHABET[i] for i in idx), depth)


KERNELS = {
    # name: (function, params, pre)
    "escape": (k_escape, [("c", "str"), ("dq", "bool")], "len(c) == 1"),
    "escape_selfdelimiting": (k_escape_selfdelimiting, [("c", "str"), ("dq", "bool")], "len(c) == 1"),
    "constant": (k_constant, [("c", "str")], "len(c) == 1"),
    "fstring_lit_before": (k_fstring_lit_before, [("c", "str")], "len(c) == 1"),
    "fstring_lit_after": (k_fstring_lit_after, [("c", "str")], "len(c) == 1"),
    # a brace inside a format-spec literal is only expressible through an escape (f'{x:\\x7d}') and
    # CPython's own ast.unparse mis-renders it too: known finding KF-C04-SPECBRACE, excluded here
    "fstring_spec_lit": (k_fstring_spec_lit, [("c", "str")], "len(c) == 1 and c != chr(123) and c != chr(125)"),
    "fstring_nested_const": (k_fstring_nested_const, [("c", "str")], "len(c) == 1"),
    "dict_key_in_field": (k_dict_key_in_field, [("c", "str")], "len(c) == 1"),
    "bytes": (k_bytes, [("b", "int")], "0 <= b <= 255"),
    "bytes_seq": (k_bytes_seq, [("i0", "int"), ("i1", "int"), ("i2", "int"), ("n", "int"), ("depth", "int")], "0 <= i0 < %d and 0 <= i1 < %d and 0 <= i2 < %d" % ((len(BYTE_ALPHABET),) * 3)),
    "str_seq": (k_str_seq, [("i0", "int"), ("i1", "int"), ("i2", "int"), ("n", "int"), ("depth", "int")], "0 <= i0 < %d and 0 <= i1 < %d and 0 <= i2 < %d" % ((len(STR_ALPHABET),) * 3)),
}
