"""C08 kernel: selector slices over the injection space (host x construct x configuration) on the
REAL convert_code_string.  Every path is concrete after pick(); the solver's role is the
exhaustiveness certificate of each slice (stated as such in the evidence)."""
import ast
import random
import sys
import warnings

from .. import rt

X = "XSTMT"
STMT_HOSTS = [
    ("module", "X\n"),
    ("function", "def f():\n    X\n"),
    ("class", "class A:\n    X\n"),
    ("for_body", "for i in range(2):\n    X\n"),
    ("while_body", "while c:\n    X\n"),
    ("if_body", "if c:\n    X\n"),
    ("else_branch", "if c:\n    pass\nelse:\n    X\n"),
    ("elif_branch", "if c:\n    pass\nelif d:\n    X\n"),
    ("for_else", "for i in r:\n    pass\nelse:\n    X\n"),
    ("while_else", "while c:\n    pass\nelse:\n    X\n"),
    ("def_for", "def f():\n    for i in r:\n        X\n"),
    ("def_def", "def f():\n    def g():\n        X\n"),
    ("for_def", "for i in r:\n    def f():\n        X\n"),
    ("for_class", "for i in r:\n    class A:\n        X\n"),
    ("def_class", "def f():\n    class A:\n        X\n"),
    ("method", "class A:\n    def m(self):\n        X\n"),
    ("after_return", "def f():\n    return 1\n    X\n"),
    ("after_break", "for i in r:\n    break\n    X\n"),
    ("after_continue", "while c:\n    continue\n    X\n"),
    ("before_return", "def f():\n    if c:\n        X\n    return 2\n"),
    ("class_for", "class A:\n    for i in r:\n        X\n"),
    ("def_while_if", "def f():\n    while c:\n        if d:\n            X\n"),
    ("between", "a = 1\nX\nb = 2\n"),
    ("def_between", "def f():\n    a = 1\n    X\n    return a\n"),
    ("nested_class_method_loop", "class A:\n    class B:\n        def m(self):\n            for i in r:\n                X\n"),
    ("deep_if", "if a:\n    if b:\n        if c:\n            if d:\n                X\n"),
    # statically dead positions (a converter that "optimises" them away must still refuse)
    ("if_zero", "if 0:\n    X\n"),
    ("if_false_else", "if False:\n    X\nelse:\n    pass\n"),
    ("if_none", "if None:\n    X\n"),
    ("if_empty_string", "if '':\n    X\n"),
    ("elif_zero", "if c:\n    pass\nelif 0:\n    X\n"),
    ("else_of_true", "if 1:\n    pass\nelse:\n    X\n"),
    ("if_not_true", "if not 1:\n    X\n"),
    ("if_debug", "if __debug__:\n    X\n"),
    ("while_zero", "while 0:\n    X\n"),
    ("while_false_else", "while False:\n    pass\nelse:\n    X\n"),
    ("for_empty_tuple", "for i in ():\n    X\n"),
    ("def_if_false", "def f():\n    if False:\n        X\n    return 1\n"),
    ("class_if_zero", "class A:\n    if 0:\n        X\n"),
    ("loop_if_zero", "for i in r:\n    if 0:\n        X\n"),
    ("nested_in_dead_if", "if 0:\n    if c:\n        X\n"),
    ("only_stmt_of_function", "def f():\n    X\n"),
    ("after_docstring", "def f():\n    '''doc'''\n    X\n"),
    ("last_of_class", "class A:\n    a = 1\n    X\n"),
    ("class_in_function_if", "def f():\n    class A:\n        if c:\n            X\n"),
]
EXPR_HOSTS = [
    ("dead_return_value", "def g():\n    return 1\n    return X\n"),
    ("dead_assign_value", "for i in r:\n    continue\n    x = X\n"),
    ("dead_if_test", "def g():\n    return 1\n    if X:\n        pass\n"),
    ("call_arg", "f(X)\n"),
    ("lambda_body", "g = lambda: X\n"),
    ("comp_elt", "l = [X for i in r]\n"),
    ("comp_cond", "l = [i for i in r if X]\n"),
    ("default", "def f(p=X):\n    pass\n"),
    ("kwdefault", "def f(*, p=X):\n    pass\n"),
    ("decorator", "@X\ndef f():\n    pass\n"),
    ("class_decorator", "@X\nclass A:\n    pass\n"),
    ("base", "class A(X):\n    pass\n"),
    ("class_kw", "class A(k=X):\n    pass\n"),
    ("fstring_field", "s = f'{ X }'\n"),
    ("fstring_spec", "s = f'{a:{X}}'\n"),
    ("assign_value", "x = X\n"),
    ("return_value", "def f():\n    return X\n"),
    ("if_test", "if X:\n    pass\n"),
    ("while_test", "while X:\n    break\n"),
    ("for_iter", "for i in X:\n    pass\n"),
    ("subscript_target_index", "d[X] = 1\n"),
    ("subscript_target_object", "(X)[0] = 1\n"),
    ("attribute_target_object", "(X).a = 1\n"),
    ("slice_target", "d[X:2] = []\n"),
    ("aug_value", "x += X\n"),
    ("aug_target_index", "d[X] += 1\n"),
    ("aug_target_object", "(X).a += 1\n"),
    ("expr_stmt", "X\n"),
    ("dict_value", "d = {1: X}\n"),
    ("star_arg", "f(*X)\n"),
    ("walrus_value", "(w := X)\n"),
    ("ifexp", "v = X if a else b\n"),
    ("for_target_index", "for d[X] in r:\n    pass\n"),
    ("ann_value", "x: int = X\n"),
    ("nested_lambda_default", "g = lambda a=lambda: X: a\n"),
    ("method_default", "class A:\n    def m(self, p=X):\n        pass\n"),
    # annotations are dropped by the converter: an unsupported expression there must still be refused
    ("ann_annotation", "x: X = 1\n"),
    ("ann_annotation_only", "x: X\n"),
    ("ann_attr_target", "o.a: X = 1\n"),
    ("param_annotation", "def h(p: X):\n    pass\n"),
    ("kwonly_annotation", "def h(*, p: X = 1):\n    pass\n"),
    ("vararg_annotation", "def h(*p: X, **q: X):\n    pass\n"),
    ("return_annotation", "def h() -> X:\n    pass\n"),
    ("method_annotation", "class A:\n    def m(self, p: X) -> X:\n        pass\n"),
    ("class_ann", "class A:\n    v: X = 1\n"),
    ("dead_if_zero_value", "if 0:\n    x = X\n"),
    ("dead_and_operand", "x = 0 and X\n"),
    ("dead_or_operand", "x = 1 or X\n"),
    ("dead_ifexp_branch", "x = a if 1 else X\n"),
    ("dead_while_zero_test_body", "while 0:\n    x = X\n"),
]
# expression hosts are wrapped into a function where the construct needs one (yield/await)
STMT_CONSTRUCTS = [
    ("try_except", "try:\n    pass\nexcept Exception:\n    pass"),
    ("try_finally", "try:\n    pass\nfinally:\n    pass"),
    ("try_else", "try:\n    pass\nexcept E:\n    pass\nelse:\n    pass"),
    ("raise_bare", "raise"),
    ("raise_value", "raise ValueError"),
    ("raise_from", "raise A from B"),
    ("with", "with a:\n    pass"),
    ("with_as", "with a as b:\n    pass"),
    ("with_multi", "with a as b, c as d:\n    pass"),
    ("assert1", "assert a"),
    ("assert2", "assert a, b"),
    ("del_name", "del a"),
    ("del_subscript", "del a[0]"),
    ("del_attribute", "del a.b"),
    ("async_def", "async def g():\n    pass"),
    ("star_import", "from os import *"),
    ("match", "match a:\n    case 1:\n        pass"),
    ("type_alias", "type T = int"),
    ("try_star", "try:\n    pass\nexcept* E:\n    pass"),
    ("yield_stmt", "yield"),
    ("yield_value_stmt", "yield 1"),
    ("yield_from_stmt", "yield from a"),
    ("yield_assign", "y = yield 2"),
    ("await_stmt", "await a"),
    ("async_for", "async for i in a:\n    pass"),
    ("async_with", "async with a:\n    pass"),
]
EXPR_CONSTRUCTS = [
    ("yield", "(yield)"),
    ("yield_value", "(yield 1)"),
    ("yield_from", "(yield from a)"),
    ("await", "(await a)"),
    ("async_comp", "[i async for i in a]"),
    ("await_in_comp", "[await i for i in a]"),
    ("yield_in_lambda", "(lambda: (yield))"),
    ("async_genexp", "(i async for i in a)"),
]
# every base construct also nested in every expression container the transformer must walk through
EXPR_BASE = list(EXPR_CONSTRUCTS)
EXPR_WRAPS = [
    ("in_list", "[X]"),
    ("in_tuple", "(X, 1)"),
    ("in_set", "{X}"),
    ("in_dict_value", "{1: X}"),
    ("in_dict_key", "{X: 1}"),
    ("in_dict_unpack", "{**X}"),
    ("in_call_arg", "g(X)"),
    ("in_call_kw", "g(k=X)"),
    ("in_call_star", "g(*X)"),
    ("in_call_func", "(X)(1)"),
    ("in_ifexp_test", "(1 if X else 2)"),
    ("in_ifexp_body", "(X if a else 2)"),
    ("in_fstring", "f'{X}'"),
    ("in_fstring_spec", "f'{a:{X}}'"),
    ("in_subscript_index", "a[X]"),
    ("in_subscript_object", "(X)[0]"),
    ("in_slice", "a[X:]"),
    ("in_ext_slice", "a[1:2, X]"),
    ("in_attr", "(X).b"),
    ("in_lambda_default", "(lambda p=X: p)"),
    ("in_comp_first_iter", "[i for i in X]"),
    ("in_boolop", "(a and X)"),
    ("in_compare", "(a < X)"),
    ("in_starred", "[*X]"),
    ("in_walrus", "(w := X)"),
    ("in_binop", "(a + X)"),
    ("in_unaryop", "(not X)"),
]
for _bn, _bs in EXPR_BASE:
    for _wn, _ws in EXPR_WRAPS:
        EXPR_CONSTRUCTS.append((_bn + "@" + _wn, _ws.replace("X", _bs)))
# ... and every expression slot of the C02 slot catalogue is a host
from ..families.c02 import EXPR_SLOTS as _C02_SLOTS  # noqa: E402

_have = {src for _, src in EXPR_HOSTS}
for _sn, _ss in _C02_SLOTS.items():
    if _ss not in _have and not any(_sn == h for h, _ in EXPR_HOSTS):
        EXPR_HOSTS.append(("slot_" + _sn if any(_sn == h for h, _ in EXPR_HOSTS) else _sn, _ss))
        _have.add(_ss)
ILLEGAL = [
    # (name, source) programs that parse but that CPython refuses to compile
    ("break_module", "break\n"),
    ("continue_module", "continue\n"),
    ("break_in_if", "if c:\n    break\n"),
    ("break_in_def", "def f():\n    break\n"),
    ("continue_in_class", "class A:\n    continue\n"),
    ("break_in_def_in_loop", "for i in r:\n    def f():\n        break\n"),
    ("continue_in_def_in_loop", "while c:\n    def f():\n        continue\n"),
    ("break_in_class_in_loop", "for i in r:\n    class A:\n        break\n"),
    ("continue_in_class_in_loop", "for i in r:\n    class A:\n        continue\n"),
    ("break_in_loop_else", "for i in r:\n    pass\nelse:\n    break\n"),
    ("continue_in_while_else", "while c:\n    pass\nelse:\n    continue\n"),
    ("break_in_method_in_loop", "for i in r:\n    class A:\n        def m(self):\n            break\n"),
    ("break_in_lambda_default_loop", "def f():\n    if c:\n        break\n"),
    ("return_module", "return 1\n"),
    ("return_bare_module", "return\n"),
    ("return_in_class", "class A:\n    return 1\n"),
    ("return_in_class_in_def", "def f():\n    class A:\n        return 1\n"),
    ("return_in_module_loop", "for i in r:\n    return i\n"),
    ("return_in_module_if", "if c:\n    return 2\n"),
    ("two_stars", "a, *b, c, *d = x\n"),
    ("two_stars_list", "[*a, *b] = x\n"),
    ("two_stars_nested_inner", "a, (*b, *c) = x\n"),
    ("two_stars_for_target", "for *a, *b in x:\n    pass\n"),
    ("two_stars_in_function", "def f():\n    *a, b, *c = x\n"),
    ("nonlocal_module", "nonlocal x\n"),
    ("nonlocal_no_binding", "def f():\n    nonlocal zz\n"),
    ("global_after_use", "def f():\n    x = 1\n    global x\n"),
    ("param_and_global", "def f(x):\n    global x\n"),
    ("nonlocal_and_global", "def f():\n    x = 1\n    def g():\n        global x\n        nonlocal x\n"),
    ("duplicate_param", "def f(a, a):\n    pass\n") if False else ("walrus_comp_target", "[(i := 1) for i in r]\n"),
    ("star_assign_alone", "*a = x\n"),
    ("assign_to_call", "f() = 1\n") if False else ("await_outside", "await x\n"),
    ("yield_outside", "yield 1\n"),
    ("yield_in_class", "class A:\n    yield 1\n"),
    # illegal placements in DEAD position (after an interrupt of the same block): still illegal
    ("dead_break_in_def", "def f():\n    return 1\n    break\n"),
    ("dead_continue_in_def_in_loop", "for i in r:\n    def f():\n        return i\n        continue\n"),
    ("dead_return_module_loop", "for i in r:\n    break\n    return 5\n"),
    ("dead_return_module_while_else", "while c:\n    if d:\n        pass\n    else:\n        continue\n        return\n"),
    ("dead_break_in_class", "class A:\n    for i in r:\n        pass\n    def m(self):\n        return 1\n        break\n"),
    ("dead_continue_after_break_in_def", "def f():\n    if c:\n        return 2\n        continue\n"),
    ("dead_two_stars", "def f():\n    return 1\n    a, *b, *c = x\n"),
    ("dead_return_in_class_in_loop", "for i in r:\n    class A:\n        pass\n    continue\n    return 3\n"),
    ("starred_expr_stmt", "*a\n"),
    ("starred_assign_value", "x = *a\n"),
]
LEGAL_NEAR_MISSES = [
    # must be ACCEPTED (the rejection rules must not over-approximate): checked in the same slices
    ("star_in_inner_and_outer", "a, (b, *c), *d = x\n"),
    ("break_in_loop_in_def_in_loop", "for i in r:\n    def f():\n        for j in r:\n            break\n"),
    ("return_in_def_in_class", "class A:\n    def m(self):\n        return 1\n"),
    ("continue_in_if_in_loop", "while c:\n    if d:\n        continue\n"),
    ("break_in_else_of_if_in_loop", "for i in r:\n    if c:\n        pass\n    else:\n        break\n"),
    ("return_in_loop_else_in_def", "def f():\n    for i in r:\n        pass\n    else:\n        return 1\n"),
    ("break_in_inner_loop_else_of_outer", "for i in r:\n    for j in r:\n        pass\n    else:\n        break\n"),
]


def build(host, construct):
    ind = ""
    for line in host.split("\n"):
        if line.strip() == "X":
            ind = line[: len(line) - 1]
    body = ("\n" + ind).join(construct.split("\n"))
    return host.replace("X", body)


def build_expr(host, construct):
    src = host.replace("X", construct)
    return src


def wrap_in_function(src, is_async):
    head = "async def outer():\n" if is_async else "def outer():\n"
    return head + "".join("    " + l + "\n" for l in src.split("\n") if l)


CONFIGS = [("ast.unparse", "chain_call", "if_expr"), ("oneliner", "list", "short_circuit")]


def converts(src, cfgi):
    """True iff the real converter returns (instead of raising) for this source"""
    c = _Configs()
    c.unparser, c.expr_wrapper, c.if_style = CONFIGS[cfgi]
    random.seed(0)
    try:
        with warnings.catch_warnings():
            warnings.simplefilter("ignore")
            _oneliner.convert_code_string(src, configs=c)
    except RecursionError:
        raise
    except Exception:
        return False
    return True


def cpython_compiles(src):
    try:
        compile(src, "<s>", "exec")
        return True
    except SyntaxError:
        return False


def cell_stmt(h, c, cfgi):
    """unsupported statement c injected into statement host h: if CPython itself accepts the
    program, the converter must refuse it"""
    src = build(STMT_HOSTS[h][1], STMT_CONSTRUCTS[c][1])
    name = STMT_CONSTRUCTS[c][0]
    if name.startswith(("yield", "await", "async_for", "async_with")):
        src = wrap_in_function(src, name.startswith(("await", "async_")))
    try:
        ast.parse(src)
    except SyntaxError:
        return True, src  # not a syntactically valid module: outside the property
    if not cpython_compiles(src):
        # parses but CPython refuses to compile it (e.g. yield in a class body): must be refused too
        return (not converts(src, cfgi)), src
    return (not converts(src, cfgi)), src


def cell_expr(h, c, cfgi):
    src = build_expr(EXPR_HOSTS[h][1], EXPR_CONSTRUCTS[c][1])
    name = EXPR_CONSTRUCTS[c][0]
    src = wrap_in_function(src, name.startswith(("await", "async")))
    try:
        tree = ast.parse(src)
    except SyntaxError:
        return True, src
    if not has_unsupported_expr(tree):
        # the splice did not produce the construct (f'{X}' with X = {..} is a literal brace)
        return True, src
    return (not converts(src, cfgi)), src


def has_unsupported_expr(tree):
    for n in ast.walk(tree):
        if isinstance(n, (ast.Yield, ast.YieldFrom, ast.Await)):
            return True
        if isinstance(n, ast.comprehension) and n.is_async:
            return True
    return False


def cell_illegal(i, cfgi):
    src = ILLEGAL[i][1]
    try:
        ast.parse(src)
    except SyntaxError:
        return True, src
    if cpython_compiles(src):
        return True, src  # CPython accepts it on this interpreter: not an illegal placement here
    return (not converts(src, cfgi)), src


def cell_legal(i, cfgi):
    src = LEGAL_NEAR_MISSES[i][1]
    return converts(src, cfgi), src


def k_stmt(h, c, cfgi):
    h = rt.pick(h, len(STMT_HOSTS))
    c = rt.pick(c, len(STMT_CONSTRUCTS))
    cfgi = rt.pick(cfgi, 2)
    with rt.NoTracing():
        return cell_stmt(h, c, cfgi)[0]


def k_expr(h, c, cfgi):
    h = rt.pick(h, len(EXPR_HOSTS))
    c = rt.pick(c, len(EXPR_CONSTRUCTS))
    cfgi = rt.pick(cfgi, 2)
    with rt.NoTracing():
        return cell_expr(h, c, cfgi)[0]


def k_illegal(i, cfgi):
    i = rt.pick(i, len(ILLEGAL))
    cfgi = rt.pick(cfgi, 2)
    with rt.NoTracing():
        return cell_illegal(i, cfgi)[0]


def k_legal(i, cfgi):
    i = rt.pick(i, len(LEGAL_NEAR_MISSES))
    cfgi = rt.pick(cfgi, 2)
    with rt.NoTracing():
        return cell_legal(i, cfgi)[0]


def unsupported_catalogue_complete():
    """fail closed: every ast.stmt subclass is either handled by the converter's dispatch table or
    represented among the constructs"""
    from oneliner.convert import ast2pending  # (called from the driver, after import_repo())

    handled = {t.__name__ for t in ast2pending}
    covered = {"Try", "TryStar", "Raise", "With", "Assert", "Delete", "AsyncFunctionDef", "AsyncFor", "AsyncWith", "Match", "TypeAlias", "ImportFrom", "Expr"}
    unknown = []
    for name in dir(ast):
        cl = getattr(ast, name)
        if isinstance(cl, type) and issubclass(cl, ast.stmt) and cl is not ast.stmt and not name.startswith("_"):
            if name not in handled and name not in covered:
                unknown.append(name)
    return unknown


# The package of the tree under test is imported NOW (module import time): CrossHair restores
# sys.path before it analyses the conditions, a lazy import inside a kernel would silently resolve
# to the installed copy (/repo) instead of the tree under test.
if rt.REPO not in sys.path[:1]:
    sys.path.insert(0, rt.REPO)
for _m in [m for m in sys.modules if m == "oneliner" or m.startswith("oneliner.")]:
    del sys.modules[_m]
import oneliner as _oneliner  # noqa: E402
from oneliner.config import Configs as _Configs  # noqa: E402

if not __import__("os").path.realpath(_oneliner.__file__).startswith(__import__("os").path.realpath(rt.REPO) + "/"):
    raise ImportError("oneliner imported from %s, not from the tree under test %s" % (_oneliner.__file__, rt.REPO))
