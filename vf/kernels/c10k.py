"""C10 kernel: the REAL Configs / Cfg / convert_code_string of the tree under test under a
symbolic API history.  A ghost model (plain dict per options object) predicts the option triple
each conversion must see; conversions run concretely and their alpha-normalised text must equal
the reference table computed in FRESH processes at check start."""
import json
import os
import random
import re
import sys

from .. import rt

PROGRAMS = [
    # sensitive to all three options (if_style, expr_wrapper via several statements, unparser via
    # spacing); the second uses for+break (shared module-level iterator-wrapper AST) and a class
    # ... and three parameters captured by an inner function (process-level state: the order in
    # which they are emitted must not depend on the hash seed)
    "x = 1\nif x:\n    y = 2\nelse:\n    y = 3\nprint(x, y)\ndef mk(alpha, beta, gamma):\n    def g():\n        return alpha + beta + gamma\n    return g\n",
    "class K:\n    v = 1\nfor i in range(3):\n    if i == K.v:\n        break\n    print(i)\nelse:\n    print('e')\nwhile i < 2:\n    i += 1\n",
    "def f(a, b=2):\n    if a:\n        return a + b\n    return b\nimport math\nprint(f(0), f(1), math.floor(2.5))\n",
]
# conversions that RAISE half-way (after a for+break loop / a while loop and an import / a class
# and a function were already converted): they must not leave anything behind
FAIL_PROGRAMS = [
    "for x in range(5):\n    if x > 2:\n        break\nwith open('f') as g:\n    pass\n",
    "import os\nn = 0\nwhile True:\n    n += 1\n    break\ntry:\n    pass\nfinally:\n    pass\n",
    "class K:\n    def m(self, r):\n        for i in r:\n            for j in r:\n                if i:\n                    return j\n        del r\n",
]
OPTIONS = ["unparser", "expr_wrapper", "if_style"]
VALUES = {
    "unparser": ["ast.unparse", "oneliner", "bogus"],
    "expr_wrapper": ["chain_call", "list", 5],
    "if_style": ["if_expr", "short_circuit", ""],
}
DEFAULTS = {"unparser": "ast.unparse", "expr_wrapper": "chain_call", "if_style": "if_expr"}
LEGAL = {"unparser": ["ast.unparse", "oneliner"], "expr_wrapper": ["chain_call", "list"], "if_style": ["if_expr", "short_circuit"]}
_TMP = re.compile(r"__ol_[a-z_]+?_[a-z]{10}\b")


def alpha(text):
    """consistent renaming of the __ol_ temporaries by first occurrence"""
    m = {}

    def sub(mo):
        k = mo.group(0)
        if k not in m:
            m[k] = "__ol_%d" % len(m)
        return m[k]

    return _TMP.sub(sub, text)


def fresh_import():
    """pristine module state at the start of every path (a stateful defect must not leak from
    one explored path into the next)"""
    for m in [m for m in sys.modules if m == "oneliner" or m.startswith("oneliner.")]:
        del sys.modules[m]
    if sys.path[0] != rt.REPO:
        sys.path.insert(0, rt.REPO)
    import oneliner
    import oneliner.config

    if not os.path.realpath(oneliner.__file__).startswith(os.path.realpath(rt.REPO) + "/"):
        raise ImportError("oneliner imported from %s, not from the tree under test %s" % (oneliner.__file__, rt.REPO))
    return oneliner, oneliner.config


REF = None


def load_ref(path):
    global REF
    with open(path) as f:
        REF = json.load(f)


def triple_key(p, t):
    return "%d|%s|%s|%s" % (p, t["unparser"], t["expr_wrapper"], t["if_style"])


def step_kinds(nprog):
    """flat list of concrete actions of one step"""
    acts = []
    for o in (0, 1):
        acts.append(("create", o))
    for o in (0, 1):
        for opt in OPTIONS:
            for vi in range(3):
                acts.append(("set", o, opt, vi))
    for o in (0, 1):
        for p in range(nprog):
            acts.append(("convert", o, p))
    for p in range(nprog):
        acts.append(("convert_default", p))
    acts.append(("reseed", 7))
    for f in range(len(FAIL_PROGRAMS)):
        acts.append(("convert_fail", f))
    return acts


def run_history(sel, nprog):
    """sel: list of concrete action indices.  Returns True iff every observation agrees with the
    ghost model and the reference table."""
    acts = step_kinds(nprog)
    ol, cfgmod = fresh_import()
    random.seed(12345)
    # both options objects exist (fresh) at the start of every history; "create" replaces one
    objs = [cfgmod.Configs(), cfgmod.Configs()]
    ghost = [dict(DEFAULTS), dict(DEFAULTS)]
    for a in sel:
        act = acts[a]
        k = act[0]
        if k == "create":
            objs[act[1]] = cfgmod.Configs()
            ghost[act[1]] = dict(DEFAULTS)
        elif k == "set":
            o, opt, vi = act[1], act[2], act[3]
            if objs[o] is None:
                continue
            v = VALUES[opt][vi]
            legal = v in LEGAL[opt]
            try:
                setattr(objs[o], opt, v)
                raised = False
            except ValueError:
                raised = True
            if legal == raised:
                return False  # legal value refused or illegal value accepted
            if legal:
                ghost[o][opt] = v
        elif k == "convert":
            o, p = act[1], act[2]
            if objs[o] is None:
                continue
            text = ol.convert_code_string(PROGRAMS[p], configs=objs[o])
            if alpha(text) != REF[triple_key(p, ghost[o])]:
                return False
        elif k == "convert_default":
            p = act[1]
            text = ol.convert_code_string(PROGRAMS[p])
            if alpha(text) != REF[triple_key(p, DEFAULTS)]:
                return False
        elif k == "reseed":
            random.seed(act[1])
        elif k == "convert_fail":
            try:
                ol.convert_code_string(FAIL_PROGRAMS[act[1]])
                return False  # an unsupported program was accepted
            except Exception:
                pass
        # invariant after every step: every object reads back exactly its own values; a fresh
        # object and the class see the defaults
        for o in (0, 1):
            if objs[o] is not None:
                for opt in OPTIONS:
                    if getattr(objs[o], opt) != ghost[o][opt]:
                        return False
        fresh = cfgmod.Configs()
        for opt in OPTIONS:
            if getattr(fresh, opt) != DEFAULTS[opt]:
                return False
    return True


def k_history(first, rest, nprog):
    """first: concrete index of the first action (partition of the history space over workers);
    rest: symbolic list of action indices"""
    n = len(step_kinds(nprog))
    sel = [first]
    for x in rest:
        sel.append(rt.pick_bisect(x, n))
    with rt.NoTracing():
        return run_history(sel, nprog)


def sub_alphabet(nprog):
    """indices of the actions that involve only options object 0, the default-options call and the
    reseed (longer histories are explored over this smaller alphabet)"""
    return [i for i, a in enumerate(step_kinds(nprog)) if not (a[0] in ("create", "set", "convert") and a[1] == 1)]


def k_history_sub(first, rest, nprog):
    sub = sub_alphabet(nprog)
    sel = [sub[first]]
    for x in rest:
        sel.append(sub[rt.pick_bisect(x, len(sub))])
    with rt.NoTracing():
        return run_history(sel, nprog)


def reference_worker(argv):
    """python -m vf.kernels.c10k P UNPARSER WRAPPER IFSTYLE  -> alpha-normalised text (fresh process)"""
    p = int(argv[1])
    ol, cfgmod = fresh_import()
    c = cfgmod.Configs()
    c.unparser, c.expr_wrapper, c.if_style = argv[2], argv[3], argv[4]
    sys.stdout.write(alpha(ol.convert_code_string(PROGRAMS[p], configs=c)))


if __name__ == "__main__":
    reference_worker(sys.argv)
