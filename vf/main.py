"""Entry point: python -m vf.main <ID> [--tier quick|thorough] [--replay PATH]"""
import argparse
import importlib
import json
import os
import sys


def main():
    ap = argparse.ArgumentParser()
    ap.add_argument("prop")
    ap.add_argument("--tier", default=os.environ.get("VERIF_TIER", "quick"), choices=["quick", "thorough"])
    ap.add_argument("--replay")
    a = ap.parse_args()
    prop = a.prop.upper()
    if a.replay:
        from . import replay

        return replay.main(["replay", a.replay])
    mod = importlib.import_module("vf.checks.%s" % prop.lower())
    return mod.run(a.tier)


if __name__ == "__main__":
    sys.exit(main())
