"""Runs under a HOST interpreter (3.10 .. 3.13, stdlib only): converts programs with the converter
of the tree under test and renders the (slot x kind) catalogue with both unparsers.
usage: python hostconv.py REPO IN.json OUT.json"""
import ast
import json
import random
import sys
import warnings


def _valid(astcat, ref, tree):
    """the tree is a valid expression AST on this host: its reference text parses back to it"""
    if ref is None:
        return False
    back = astcat.parse_expr(ref)
    return back is not None and astcat.norm(back) == astcat.norm(tree)


def main():
    repo, inp, outp = sys.argv[1], sys.argv[2], sys.argv[3]
    sys.path.insert(0, repo)
    sys.path.insert(0, __file__.rsplit("/vf/", 1)[0])
    warnings.simplefilter("ignore")
    import importlib

    import oneliner
    from oneliner.config import Configs

    U = importlib.import_module("oneliner.expr_unparse")
    with open(inp) as f:
        job = json.load(f)
    res = {"host": list(sys.version_info[:3]), "programs": {}, "catalogue": {}}
    for desc, src in job["programs"]:
        per = {}
        for u in ("ast.unparse", "oneliner"):
            for w in ("chain_call", "list"):
                for i in ("if_expr", "short_circuit"):
                    c = Configs()
                    c.unparser, c.expr_wrapper, c.if_style = u, w, i
                    random.seed(5)
                    try:
                        per["%s/%s/%s" % (u, w, i)] = ["ok", oneliner.convert_code_string(src, configs=c)]
                    except Exception as e:
                        per["%s/%s/%s" % (u, w, i)] = ["rejected", type(e).__name__]
        res["programs"][desc] = per
    if job.get("catalogue"):
        from vf.kernels import astcat

        K = astcat.kinds()
        S = astcat.slots()
        for s in S:
            for k in K:
                tree = S[s](K[k]())
                ast.fix_missing_locations(tree)
                try:
                    ref = ast.unparse(tree)
                except Exception:
                    ref = None
                try:
                    cu = U.expr_unparse(tree)
                except Exception:
                    cu = None
                res["catalogue"]["%s|%s" % (s, k)] = [ref, cu, _valid(astcat, ref, tree)]
        from vf.checks import c04 as c04mod  # f-string structure shapes (pure ast construction)

        for d, t in c04mod.fstring_shapes():
            ast.fix_missing_locations(t)
            try:
                ref = ast.unparse(t)
            except Exception:
                ref = None
            try:
                cu = U.expr_unparse(t)
            except Exception:
                cu = None
            res["catalogue"]["F:" + d] = [ref, cu, _valid(astcat, ref, t)]
    with open(outp, "w") as f:
        json.dump(res, f)


if __name__ == "__main__":
    main()
