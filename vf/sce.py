"""Symbolic co-execution (translation validation) driver.

For every template (one concrete program of an enumerated family) the REAL converter of the tree
under test is run for the 8 option combinations; then, per semantic configuration, one PEP-316
condition states: for all values of the symbolic parameters inside the bounds, exec(source) and
eval(converted text) produce equal observation records.  CrossHair/z3 decide the condition.
"""
import ast
import re
import zlib
import concurrent.futures
import json
import os
import random
import subprocess
import sys
import time

from . import chrun, common, rt


class Template:
    def __init__(self, desc, src, params, pre, observe="trace+globals", budget=60, tags=(), samples=None, sem_configs=None, hook=None, meta=None, ignore_globals=None):
        self.desc = desc  # canonical descriptor == id
        self.src = src
        self.params = params  # list of (name, typestring) e.g. ('B', 'List[bool]')
        self.pre = pre
        self.observe = observe
        self.budget = budget
        self.tags = tuple(tags)
        self.samples = samples  # optional list of concrete input dicts for the pre-screen
        self.sem_configs = sem_configs  # optional restriction of the semantic configurations
        self.hook = hook  # name of a post-run observation hook in rt.HOOKS
        self.meta = meta
        self.ignore_globals = list(ignore_globals or [])  # names excluded from the globals comparison


def cfg_name(u, w, i):
    return "%s/%s/%s" % (u, w, i)


def make_cfg(oneliner_mod, u, w, i):
    from oneliner.config import Configs

    c = Configs()
    c.unparser = u
    c.expr_wrapper = w
    c.if_style = i
    return c


def strip_ctx(tree):
    return ast.dump(tree)


def convert_program(oneliner_mod, src, seed_val, sem_configs=None):
    """Run the real converter for all 8 configurations.  Returns {cfgname: ('ok', text) |
    ('rejected', exc type name, message)}; the RNG is seeded identically for the two unparsers of
    one semantic configuration so that their temporaries coincide."""
    res = {}
    for w, i in (sem_configs or common.SEM_CONFIGS):
        for u in common.UNPARSERS:
            random.seed(seed_val)
            try:
                cfg = make_cfg(oneliner_mod, u, w, i)
                text = oneliner_mod.convert_code_string(src, configs=cfg)
                res[cfg_name(u, w, i)] = ("ok", text)
            except RecursionError as e:  # pragma: no cover
                res[cfg_name(u, w, i)] = ("rejected", "RecursionError", "")
            except Exception as e:
                res[cfg_name(u, w, i)] = ("rejected", type(e).__name__, str(e)[:200])
    return res


def default_samples(params, pre="True", want=4):
    """A few concrete valuations satisfying the bounds, used for the concrete pre-screen and as
    reachability witnesses.  Deterministic (fixed seed)."""
    rnd = random.Random(12345)
    out = []
    seen = set()
    code = compile(pre or "True", "<pre>", "eval")
    # hints from the bounds text: exact / ranged lengths and int ranges
    hint = {}
    for m in re.finditer(r"len\((\w+)\) == (\d+)", pre or ""):
        hint[m.group(1)] = (int(m.group(2)), int(m.group(2)))
    for m in re.finditer(r"(\d+) <= len\((\w+)\) <= (\d+)", pre or ""):
        hint[m.group(2)] = (int(m.group(1)), int(m.group(3)))
    for m in re.finditer(r"(?<![\w(])len\((\w+)\) <= (\d+)", pre or ""):
        hint.setdefault(m.group(1), (0, int(m.group(2))))
    for m in re.finditer(r"(-?\d+) <= (\w+) (<=|<) (-?\d+)", pre or ""):
        hi = int(m.group(4)) - (1 if m.group(3) == "<" else 0)
        hint[m.group(2)] = (int(m.group(1)), hi)
    for attempt in range(400):
        d = {}
        for n, t in params:
            if t == "List[bool]":
                k = attempt % 7
                d[n] = [rnd.random() < 0.6 for _ in range(k)]
            elif t == "List[int]" and n == "NS":
                d[n] = [rnd.randint(0, 2) for _ in range(rnd.randint(0, 3))]
            elif t == "List[int]":
                lo, hi = hint.get(n, (0, 7))
                k = rnd.randint(lo, hi)
                d[n] = [rnd.randint(-9, 40) for _ in range(k)]
            elif t == "int":
                if n in hint:
                    d[n] = rnd.randint(*hint[n])
                else:
                    d[n] = rnd.choice([0, 1, 2, 3, -1, -2, 5, 7, -4, 4])
            elif t == "bool":
                d[n] = rnd.random() < 0.5
            elif t == "str":
                d[n] = "".join(rnd.choice("ab'\\{x") for _ in range(rnd.randint(0, 3)))
            else:
                raise ValueError("no default for type %s" % t)
        try:
            if not eval(code, {"__builtins__": __builtins__}, dict(d)):
                continue
        except Exception:
            continue
        key = repr(sorted(d.items()))
        if key in seen:
            continue
        seen.add(key)
        out.append(d)
        if len(out) >= want:
            break
    return out


class Outcome:
    """Result of one obligation (template x semantic config [x unparser])."""

    __slots__ = ("oid", "tpl", "cfgs", "status", "info")

    def __init__(self, oid, tpl, cfgs, status, info=None):
        self.oid = oid
        self.tpl = tpl
        self.cfgs = cfgs
        self.status = status
        self.info = info


def classify(a, b):
    """divergence class from two observation records (concrete)"""
    if b[0] == "raised":
        return "converted-raises:%s" % b[1]
    if a[1] != b[1]:
        return "trace-diff"
    ka = [n for n, _ in a[2]] if a[2] and a[2] != ("stopped",) else []
    kb = [n for n, _ in b[2]] if b[2] and b[2] != ("stopped",) else []
    if ka != kb:
        return "globals-missing" if set(ka) - set(kb) else "globals-extra"
    if a[2] != b[2]:
        return "globals-diff"
    if a[3] != b[3]:
        return "call-diff"
    return None


def concrete_check(ob, inputs):
    try:
        ok, a, b = rt.coexec(ob, inputs, detail=True)
    except RecursionError:
        return None, None, None
    return ok, a, b


def replay_subprocess(record_path, py=None):
    """Fresh interpreter, no CrossHair, the property's literal observables (real print)."""
    py = py or sys.executable
    env = dict(os.environ)
    env.pop("PYTHONPATH", None)
    p = subprocess.run(
        [py, "-m", "vf.replay", record_path],
        capture_output=True,
        text=True,
        cwd=common.VERIF,
        timeout=120,
        env=env,
    )
    try:
        return json.loads(p.stdout.strip().splitlines()[-1])
    except Exception:
        return {"reproduced": False, "error": (p.stdout + p.stderr)[-500:]}


class Driver:
    def __init__(self, report, known, workdir, tier, per_cond_timeout=None, batch=30, jobs=16, all_unparsers=False, sem_configs=None, host="3.12"):
        self.report = report
        self.known = known
        self.workdir = workdir
        self.tier = tier
        self.per_cond_timeout = per_cond_timeout or (20 if tier == "quick" else 90)
        self.batch = batch
        self.jobs = jobs
        self.host = host
        self.sem_configs = sem_configs or common.SEM_CONFIGS
        self.ol = common.import_repo()
        self.stats = {
            "programs": 0,
            "obligations": 0,
            "discharged": 0,
            "inconclusive": 0,
            "vacuous": 0,
            "masked": 0,
            "spurious": 0,
            "counterexamples": 0,
            "rejected_by_converter": 0,
            "unparser_ast_identical": 0,
            "unparser_ast_different": 0,
            "paths": 0,
            "solver_cpu_s": 0.0,
            "prescreen_divergences": 0,
            "disagreements_checked": 0,
        }
        self.samples = []
        self.texts = []  # every converted text (for C02/C03 by-products)
        self.inconclusive_ids = []
        self.masked_ids = []

    # -- step 1: conversion + concrete pre-screen ---------------------------------------------
    def prepare(self, templates, on_rejected="violation"):
        """Convert every template; returns list of obligation dicts ready for CrossHair.
        on_rejected: 'violation' (template is inside the supported fragment, a rejection is a
        divergence) | 'skip'."""
        obligations = []
        for ti, t in enumerate(templates):
            self.stats["programs"] += 1
            try:
                src_code = compile(t.src, "<source>", "exec")
            except SyntaxError as e:
                self.report.harness_error("template %s does not compile: %s" % (t.desc, e))
                continue
            conv = convert_program(self.ol, t.src, zlib.crc32(t.desc.encode()) & 0xFFFF, t.sem_configs or self.sem_configs)
            for w, i in (t.sem_configs or self.sem_configs):
                ra = conv[cfg_name("ast.unparse", w, i)]
                ro = conv[cfg_name("oneliner", w, i)]
                group = []
                if ra[0] == "ok" and ro[0] == "ok":
                    same = False
                    try:
                        same = ast.dump(ast.parse(ra[1], mode="eval")) == ast.dump(ast.parse(ro[1], mode="eval"))
                    except SyntaxError:
                        same = False
                    if same:
                        self.stats["unparser_ast_identical"] += 1
                        group = [(["ast.unparse", "oneliner"], ra[1])]
                    else:
                        self.stats["unparser_ast_different"] += 1
                        group = [(["ast.unparse"], ra[1]), (["oneliner"], ro[1])]
                else:
                    for u, r in (("ast.unparse", ra), ("oneliner", ro)):
                        if r[0] == "ok":
                            group.append(([u], r[1]))
                        else:
                            self._rejected(t, cfg_name(u, w, i), r, on_rejected)
                for us, text in group:
                    cfgs = [cfg_name(u, w, i) for u in us]
                    oid = "%s@%s" % (t.desc, "+".join(cfgs))
                    self.texts.append((t.desc, cfgs, text))
                    try:
                        compile(text, "<converted>", "eval")
                    except (SyntaxError, ValueError) as e:
                        self._diverged(t, cfgs, "compile-error", {"text": text, "error": str(e)[:200]}, None)
                        continue
                    obligations.append(
                        {
                            "oid": oid,
                            "desc": t.desc,
                            "cfgs": cfgs,
                            "src": t.src,
                            "out": text,
                            "observe": t.observe,
                            "budget": t.budget,
                            "hook": t.hook,
                            "meta": t.meta,
                            "ignore_globals": t.ignore_globals,
                            "params": t.params,
                            "pre": t.pre,
                            "tidx": ti,
                        }
                    )
        self.stats["obligations"] += len(obligations)
        return obligations

    def _rejected(self, t, cfg, r, on_rejected):
        self.stats["rejected_by_converter"] += 1
        if on_rejected == "skip":
            return
        self._diverged(t, [cfg], "rejected:%s" % r[1], {"message": r[2]}, None)

    def _diverged(self, t, cfgs, cls, detail, inputs):
        """A concrete, reproduced divergence: masked by a known finding or a violation."""
        self.stats["disagreements_checked"] += 1
        unmatched = []
        for cfg in cfgs:
            e = self.known.match(t.desc, cfg, self.host, cls)
            if e is None:
                unmatched.append(cfg)
        if not unmatched:
            self.stats["masked"] += 1
            self.masked_ids.append(t.desc)
            return
        rec = {
            "property": self.report.prop,
            "kind": "sce",
            "descriptor": t.desc,
            "configs": unmatched,
            "divergence": cls,
            "src": t.src,
            "inputs": inputs,
            "observe": t.observe,
            "budget": t.budget,
            "hook": t.hook,
            "meta": t.meta,
            "ignore_globals": t.ignore_globals,
            "detail": detail,
            "what": "%s [%s] %s inputs=%r" % (t.desc, ",".join(unmatched), cls, inputs),
        }
        if detail and "out" in detail:
            rec["out_recorded"] = detail["out"]
        self.report.violation(rec)

    def prescreen(self, obligations, templates):
        """Concrete runs with a handful of default valuations: gives the reachability witness and
        catches gross divergences without the solver (they still go through the replay)."""
        keep = []
        pending = []
        for od in obligations:
            t = templates[od["tidx"]]
            ob = rt.Obligation(od)
            samples = t.samples or default_samples(t.params, t.pre)
            reached = False
            div = None
            for inp in samples:
                ok, a, b = concrete_check(ob, inp)
                if ok is None:
                    continue
                if a[0] != "raised":
                    reached = True
                if not ok:
                    div = (inp, a, b)
                    break
            od["witness"] = reached
            if div is not None:
                self.stats["prescreen_divergences"] += 1
                cls = classify(div[1], div[2])
                if cls and all(self.known.match(t.desc, c, self.host, cls, count=False) for c in od["cfgs"]):
                    # concrete in-process divergence listed as a known finding: masked
                    self._diverged(t, od["cfgs"], cls, None, div[0])
                else:
                    pending.append((t, od, div[0]))
                continue
            keep.append(od)
        self._confirm_many(pending)
        return keep

    def _confirm_and_report(self, t, od, inputs):
        self._confirm_many([(t, od, inputs)])

    def _confirm_many(self, items):
        """Replay each (template, obligation, inputs) in a fresh interpreter (in parallel);
        classify; mask or report."""
        if not items:
            return
        paths = []
        for k, (t, od, inputs) in enumerate(items):
            rec_path = os.path.join(self.workdir, "replay_%d_%d.json" % (zlib.crc32(od["oid"].encode()), k))
            rec = {
                "property": self.report.prop,
                "kind": "sce",
                "descriptor": t.desc,
                "configs": od["cfgs"],
                "src": od["src"],
                "out": od["out"],
                "inputs": inputs,
                "observe": od["observe"],
                "budget": od["budget"],
                "hook": od.get("hook"),
                "meta": od.get("meta"),
                "ignore_globals": od.get("ignore_globals"),
                "use_recorded_out": True,
            }
            with open(rec_path, "w") as f:
                json.dump(rec, f)
            paths.append(rec_path)
        with concurrent.futures.ThreadPoolExecutor(max_workers=self.jobs) as ex:
            results = list(ex.map(replay_subprocess, paths))
        for (t, od, inputs), r in zip(items, results):
            if not r.get("reproduced"):
                self.stats["spurious"] += 1
                self.stats["inconclusive"] += 1
                self.inconclusive_ids.append(od["oid"])
                self.report.note("counterexample for %s did not reproduce concretely (spurious): %r %s" % (od["oid"], inputs, r.get("error", r.get("note", ""))))
                continue
            self.stats["counterexamples"] += 1
            self._diverged(t, od["cfgs"], r["divergence"], {"out": od["out"], "source_record": r.get("a"), "converted_record": r.get("b")}, inputs)

    # -- step 2: CrossHair ---------------------------------------------------------------------
    def solve(self, obligations, templates, label="sce"):
        if not obligations:
            return
        conds = []
        by_oid = {}
        # one obligations file for all batches of this call
        ob_path = os.path.join(self.workdir, "%s_obligations.json" % label)
        with open(ob_path, "w") as f:
            json.dump([{k: od[k] for k in ("oid", "src", "out", "observe", "budget", "hook", "meta", "ignore_globals")} for od in obligations], f)
        prelude = "OB = rt.load_obligations(%r)\n" % ob_path
        for idx, od in enumerate(obligations):
            by_oid[od["oid"]] = od
            names = [n for n, _ in od["params"]]
            body = "    return rt.coexec(OB[%d], {%s})" % (idx, ", ".join("%r: %s" % (n, n) for n in names))
            conds.append(chrun.Condition(od["oid"], od["params"], od["pre"], body))
        batch = max(3, min(self.batch, -(-len(conds) // (self.jobs * 8))))
        random.Random(7).shuffle(conds)
        results, counts, st = chrun.check_conditions(
            conds, prelude, self.workdir, per_cond_timeout=self.per_cond_timeout, batch=batch, jobs=self.jobs, label=label
        )
        self.stats["solver_cpu_s"] += st["solver_cpu_s"]
        pending = []
        for oid, (verdict, info) in results.items():
            od = by_oid[oid]
            t = templates[od["tidx"]]
            c = counts.get(oid, {})
            self.stats["paths"] += c.get("paths", 0)
            if verdict == "confirmed":
                if c.get("reached", 0) < 1 or not od.get("witness", True):
                    self.stats["vacuous"] += 1
                    self.report.note("vacuous obligation (no path reached the end of the source): %s" % oid)
                else:
                    self.stats["discharged"] += 1
                    if len(self.samples) < 4:
                        self.samples.append(
                            {
                                "obligation": oid,
                                "source": od["src"],
                                "converted": od["out"],
                                "symbolic_parameters": od["params"],
                                "bounds": od["pre"],
                                "verdict": "Confirmed over all paths",
                                "paths": c.get("paths", 0),
                            }
                        )
            elif verdict == "cex":
                args = info.get("args")
                if args is None:
                    self.stats["inconclusive"] += 1
                    self.inconclusive_ids.append(oid)
                    self.report.note("unparsable counterexample for %s: %s" % (oid, info.get("msg", "")[:200]))
                    continue
                pending.append((t, od, args))
            else:
                self.stats["inconclusive"] += 1
                self.inconclusive_ids.append(oid)
        self._confirm_many(pending)

    def run(self, templates, on_rejected="violation", label="sce"):
        t0 = time.time()
        obligations = self.prepare(templates, on_rejected)
        t1 = time.time()
        obligations = self.prescreen(obligations, templates)
        t2 = time.time()
        self.solve(obligations, templates, label)
        t3 = time.time()
        self.stats["phase_convert_s"] = round(self.stats.get("phase_convert_s", 0) + t1 - t0, 1)
        self.stats["phase_prescreen_s"] = round(self.stats.get("phase_prescreen_s", 0) + t2 - t1, 1)
        self.stats["phase_solve_s"] = round(self.stats.get("phase_solve_s", 0) + t3 - t2, 1)


def report_known(driver, rep, known):
    """For every open known finding of this property re-run its minimal input concretely and print
    the KNOWN-FINDING line while it still fails (exit code stays 0)."""
    for e in known.entries:
        mi = e.get("minimal_input")
        still = None
        if mi is not None:
            still = minimal_still_fails(driver.ol, e)
        if still is False:
            rep.note("known finding %s: minimal input no longer fails on this tree" % e["id"])
        else:
            rep.known("%s: %s" % (e["id"], e["what"]))


def minimal_still_fails(ol, e):
    src = e["minimal_input"]
    cfgs = e.get("minimal_configs") or ["ast.unparse/chain_call/if_expr"]
    inputs_list = e.get("minimal_values") or [{}]
    for cfg in cfgs:
        u, w, i = cfg.split("/")
        random.seed(0)
        try:
            text = ol.convert_code_string(src, configs=make_cfg(ol, u, w, i))
            compile(text, "<converted>", "eval")
        except Exception:
            return True
        ob = rt.Obligation({"oid": "kf", "src": src, "out": text, "observe": e.get("observe", "trace+globals"), "budget": 200})
        for inp in inputs_list:
            ok, a, b = concrete_check(ob, dict(inp))
            if ok is False:
                return True
    return False
