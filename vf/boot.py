#!/venv/bin/python
"""Create /verif/.venv: an overlay of /venv (python 3.12, the repo's own environment) plus
crosshair-tool and z3-solver from the offline wheelhouse.  Idempotent and flock-guarded so that
16 checks started at once build it exactly once.  Only files on disk are used (no network)."""
import fcntl
import os
import subprocess
import sys

VERIF = os.path.dirname(os.path.dirname(os.path.abspath(__file__)))
VENV = os.path.join(VERIF, ".venv")
BASE_PY = "/venv/bin/python"
BASE_SITE = "/venv/lib/python3.12/site-packages"
WHEELS = "/opt/veriftools/wheels"
STAMP = os.path.join(VENV, ".ok")
PKGS = ["crosshair-tool", "z3-solver", "jsonschema"]


def venv_python() -> str:
    return os.path.join(VENV, "bin", "python")


def ready() -> bool:
    return os.path.exists(STAMP) and os.path.exists(venv_python())


def ensure() -> str:
    if ready():
        return venv_python()
    lock_path = os.path.join(VERIF, ".venv.lock")
    with open(lock_path, "w") as lock:
        fcntl.flock(lock, fcntl.LOCK_EX)
        if ready():
            return venv_python()
        if os.path.exists(VENV):
            subprocess.run(["rm", "-rf", VENV], check=True)
        env = dict(os.environ, PIP_NO_INDEX="1")
        subprocess.run([BASE_PY, "-m", "venv", VENV], check=True, env=env)
        site = os.path.join(VENV, "lib", "python3.12", "site-packages")
        with open(os.path.join(site, "_verif_overlay.pth"), "w") as f:
            f.write("import site; site.addsitedir(%r)\n" % BASE_SITE)
        subprocess.run(
            [venv_python(), "-m", "pip", "install", "-q", "--no-index", "--find-links", WHEELS]
            + PKGS,
            check=True,
            env=env,
            stdout=sys.stderr,
        )
        subprocess.run(
            [venv_python(), "-c", "import crosshair, z3, jsonschema; print('overlay ok', z3.get_version_string())"],
            check=True,
            stdout=sys.stderr,
        )
        with open(STAMP, "w") as f:
            f.write("ok\n")
    return venv_python()


if __name__ == "__main__":
    print(ensure())
