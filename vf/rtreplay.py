"""Runs under a RUNTIME interpreter (3.8 .. 3.13, stdlib only, no CrossHair): concrete
co-execution of source and converted text on that runtime.
usage: python rtreplay.py VERIF IN.json OUT.json"""
import json
import sys


def main():
    sys.path.insert(0, sys.argv[1])
    from vf import rt

    with open(sys.argv[2]) as f:
        job = json.load(f)
    out = []
    for item in job["items"]:
        try:
            ob = rt.Obligation({"oid": item["id"], "src": item["src"], "out": item["out"], "observe": item.get("observe", "trace+globals"), "budget": item.get("budget", 300)})
        except SyntaxError as e:
            out.append({"id": item["id"], "status": "compile-error", "detail": str(e)[:100]})
            continue
        status = "ok"
        detail = None
        reached = False
        for inp in item["inputs"]:
            try:
                ok, a, b = rt.coexec(ob, dict(inp), detail=True)
            except RecursionError:
                continue
            if a[0] != "raised":
                reached = True
            if not ok:
                status = "diverge"
                detail = {"inputs": inp, "a": repr(a)[:600], "b": repr(b)[:600]}
                break
        if status == "ok" and not reached:
            status = "source-raises"
        out.append({"id": item["id"], "status": status, "detail": detail})
    with open(sys.argv[3], "w") as f:
        json.dump({"runtime": list(sys.version_info[:3]), "results": out}, f)


if __name__ == "__main__":
    main()
