"""Runtime shared by every generated harness (executed under CrossHair) and by the concrete replay.

Nothing in here knows a golden output: both sides of a co-execution obligation are run in the same
environment and their observation records are compared.

All code that is concrete by construction (bookkeeping, compilation, dict creation for exec/eval)
runs inside NoTracing(); everything that touches symbolic data runs traced.
"""
import atexit
import builtins
import json
import os
import sys
import types

REPO = os.environ.get("ONELINER_VERIF_REPO", "/repo")

try:  # the replay interpreter may be one without CrossHair (3.8 … 3.13 binaries)
    from crosshair.tracers import NoTracing as _ChNoTracing
    from crosshair.tracers import is_tracing as _is_tracing

    HAVE_CH = True
except Exception:  # pragma: no cover
    HAVE_CH = False

    def _is_tracing():
        return False


class _Null:
    def __enter__(self):
        return self

    def __exit__(self, *a):
        return False


if HAVE_CH:
    NoTracing = _ChNoTracing  # a TraceSwap: restores the previous state, fine when not tracing
else:  # pragma: no cover

    def NoTracing():
        return _Null()


# --------------------------------------------------------------------------------------------
# CrossHair patch overrides (models of builtins whose CrossHair model realises or is too narrow)
# --------------------------------------------------------------------------------------------
HEX = "0123456789abcdef"
_real_ascii = builtins.ascii
_real_hasattr = builtins.hasattr
_real_type = builtins.type
_real_setattr = builtins.setattr
_real_repr = builtins.repr
_real_getattr = builtins.getattr


def _hexdigit(n):
    # arithmetic instead of table indexing: indexing a str with a symbolic int realises it
    # (a 16-way fork per nibble); this forks two ways and keeps the digit symbolic
    return chr(48 + n) if n < 10 else chr(87 + n)


def py_ascii(obj):
    """Pure-Python model of builtins.ascii for str arguments (validated against the builtin by
    vf.models.validate_ascii at check start).  Other argument types go to the real builtin."""
    with NoTracing():
        is_str = isinstance(obj, (str, _AnySymbolicStr))
    if not is_str:
        return _real_ascii(obj)
    s = obj
    has_sq = False
    has_dq = False
    for c in s:
        if c == "'":
            has_sq = True
        if c == '"':
            has_dq = True
    q = '"' if (has_sq and not has_dq) else "'"
    body = []
    for c in s:
        o = ord(c)
        if c == q or c == "\\":
            body.append("\\" + c)
        elif c == "\t":
            body.append("\\t")
        elif c == "\n":
            body.append("\\n")
        elif c == "\r":
            body.append("\\r")
        elif 32 <= o < 127:
            body.append(c)
        elif o < 256:
            body.append("\\x" + _hexdigit((o >> 4) & 15) + _hexdigit(o & 15))
        elif o < 65536:
            body.append("\\u" + _hexdigit((o >> 12) & 15) + _hexdigit((o >> 8) & 15) + _hexdigit((o >> 4) & 15) + _hexdigit(o & 15))
        else:
            body.append(
                "\\U00"
                + _hexdigit((o >> 20) & 15)
                + _hexdigit((o >> 16) & 15)
                + _hexdigit((o >> 12) & 15)
                + _hexdigit((o >> 8) & 15)
                + _hexdigit((o >> 4) & 15)
                + _hexdigit(o & 15)
            )
    return q + "".join(body) + q


try:
    from crosshair.libimpl.builtinslib import AnySymbolicStr as _AnySymbolicStr
except Exception:  # pragma: no cover

    class _AnySymbolicStr:  # type: ignore
        pass


def _is_symbolic_str(x):
    return isinstance(x, _AnySymbolicStr)


def model_hasattr(obj, name):
    """hasattr for a symbolic attribute name: membership in dir(obj) decided by comparisons (forks)
    instead of realising the name.  Concrete names use the real builtin."""
    with NoTracing():
        if not isinstance(name, _AnySymbolicStr):
            return _real_hasattr(obj, name)  # what CrossHair's own patch does for concrete names
        names = list(dir(obj))
    for d in names:
        if name == d:
            return True
    return False


_SETUP_DONE = False


def setup(models=()):
    """Install the patch overrides.  Must be called from the harness module (i.e. after CrossHair
    has made its own registrations).  models: subset of {'ascii', 'hasattr'} -- the pure-Python
    models are only installed where a harness needs them (C04: ascii on symbolic characters,
    C16: hasattr with a symbolic name); the `type` wrapper is always installed."""
    global _SETUP_DONE
    if _SETUP_DONE or not HAVE_CH:
        return
    _SETUP_DONE = True
    from crosshair import core as chcore

    # CrossHair bug: looking for class contracts it assumes every function stored in a class has
    # a first parameter; a parameter-less function attribute (lam = lambda: 1) makes it raise
    # IndexError into the code under test.  Tolerate empty signatures.
    try:
        import crosshair.condition_parser as _cp
        import crosshair.fnutil as _fu

        _orig_sfat = _fu.set_first_arg_type

        def _safe_set_first_arg_type(sig, first_arg_type):
            if not sig.parameters:
                return sig
            return _orig_sfat(sig, first_arg_type)

        _fu.set_first_arg_type = _safe_set_first_arg_type
        _cp.set_first_arg_type = _safe_set_first_arg_type
    except Exception:  # pragma: no cover
        pass

    # Contract enforcement (looking up PEP-316 contracts of every callee, and replacing every
    # class call by a "manual constructor") is pointless for the programs under test -- they
    # carry no contracts -- and its introspection raises into user code for metaclass calls and
    # for methods whose __class__ cell is still empty.  Switch it off for frames of the programs
    # under test and of this runtime.
    try:
        import crosshair.enforce as _enf

        _orig_wants = _enf.EnforcedConditions.wants_codeobj

        def _wants_codeobj(self, codeobj):
            fname = codeobj.co_filename
            if fname in ("<source>", "<converted>", "<string>") or fname.endswith("vf/rt.py") or "/vf/kernels/" in fname or "/vf/models/" in fname:
                return False
            return _orig_wants(self, codeobj)

        _enf.EnforcedConditions.wants_codeobj = _wants_codeobj
    except Exception:  # pragma: no cover
        pass

    reg = chcore._PATCH_REGISTRATIONS
    if "ascii" in models:
        reg[_real_ascii] = py_ascii
    if "hasattr" in models:
        reg[_real_hasattr] = model_hasattr
    # CrossHair's getattr/setattr/hasattr patches run the real builtin with tracing OFF, so user
    # code reached through descriptors (property setters, __getattr__/__setattr__ hooks) would run
    # untraced and crash on symbolic data.  For ordinary objects and concrete names the real
    # builtin is called with tracing left ON (a call to the original made from the registered
    # patch itself is not intercepted again).
    try:
        from crosshair.core import SymbolicValue as _SV
    except Exception:  # pragma: no cover
        from crosshair.util import CrossHairValue as _SV
    ch_setattr = reg.get(_real_setattr)
    ch_getattr = reg.get(_real_getattr)
    ch_hasattr = reg.get(_real_hasattr)

    try:
        from crosshair.core import realize as _ch_realize
    except Exception:  # pragma: no cover
        _ch_realize = lambda x: x

    def setattr_model(obj, name, value):
        with NoTracing():
            if isinstance(name, _AnySymbolicStr):
                # CrossHair's own patch tests `type(name) is AnySymbolicStr`, which is never true
                # for the concrete symbolic-string classes, and then fails with TypeError
                name = _ch_realize(name)
            plain = _real_type(name) is str and not isinstance(obj, _SV)
        if plain:
            return _real_setattr(obj, name, value)
        return ch_setattr(obj, name, value)

    def getattr_model(obj, name, *default):
        with NoTracing():
            plain = _real_type(name) is str and not isinstance(obj, _SV)
        if plain:
            return _real_getattr(obj, name, *default)
        return ch_getattr(obj, name, *default)

    def hasattr_model(obj, name):
        with NoTracing():
            plain = _real_type(name) is str and not isinstance(obj, _SV)
        if plain:
            return _real_hasattr(obj, name)
        return ch_hasattr(obj, name)

    if ch_setattr is not None:
        reg[_real_setattr] = setattr_model
    if ch_getattr is not None:
        reg[_real_getattr] = getattr_model
    if ch_hasattr is not None and "hasattr" not in models:
        reg[_real_hasattr] = hasattr_model
    # CrossHair's repr patch carries a contract (post[]: True) and is therefore short-circuited
    # at random with an uninterpreted result, which turns every path through repr() into UNKNOWN.
    # Same behaviour without the contract:
    try:
        from crosshair.libimpl.builtinslib import invoke_dunder as _invoke_dunder

        def repr_model(obj):
            with NoTracing():
                plain = _plain(obj)
            if plain:
                return _real_repr(obj)
            return _invoke_dunder(obj, "__repr__")

        reg[_real_repr] = repr_model
    except Exception:  # pragma: no cover
        pass
    ch_type = reg.get(_real_type)

    if ch_type is not None:

        def type_model(*a, **kw):
            # CrossHair's own patch takes positional arguments only (no class keywords); the
            # one-argument form is the only one it models.  Calls to the builtin made from the
            # registered patch itself are not intercepted again.
            if not kw:
                try:
                    (x,) = a
                except ValueError:
                    pass
                else:
                    return ch_type(x)
            return _real_type(*a, **kw)

        reg[_real_type] = type_model


def pick(x, n):
    """Make a symbolic selector concrete by forking on every value (never let a symbolic int reach
    C code)."""
    for i in range(n):
        if x == i:
            return i
    raise AssertionError("selector out of range")


def pick_bisect(x, n):
    """like pick(), with about log2(n) decisions per selector instead of up to n"""
    lo = 0
    hi = n
    if not (0 <= x < n):
        raise AssertionError("selector out of range")
    while hi - lo > 1:
        mid = (lo + hi) // 2
        if x < mid:
            hi = mid
        else:
            lo = mid
    return lo


def pick_bool(x):
    return True if x else False


# --------------------------------------------------------------------------------------------
# per-obligation path counters (vacuity guard and solver-work accounting)
# --------------------------------------------------------------------------------------------
_COUNTS = {}
_COUNT_FILE = None


def count(oid, what):
    with NoTracing():
        d = _COUNTS.setdefault(oid, {})
        d[what] = d.get(what, 0) + 1


def _dump_counts():
    # CrossHair's audit wall blocks opening files for writing; stderr is already open.
    if _COUNT_FILE:
        try:
            sys.stderr.write("\nVFCOUNTS " + json.dumps(_COUNTS) + "\n")
            sys.stderr.flush()
        except Exception:  # pragma: no cover
            pass


def enable_counts(path):
    global _COUNT_FILE
    _COUNT_FILE = path
    atexit.register(_dump_counts)


# --------------------------------------------------------------------------------------------
# canonical observation of values
# --------------------------------------------------------------------------------------------
_CLASS_ATTR_SKIP = frozenset(
    [
        "__doc__",
        "__module__",
        "__qualname__",
        "__dict__",
        "__weakref__",
        "__firstlineno__",
        "__static_attributes__",
        "__annotations__",
        "__annotate__",
        "__annotate_func__",
        "__annotations_cache__",
        "__type_params__",
        "__orig_bases__",
        "__parameters__",
        "__abstractmethods__",
        "_abc_impl",
        "__classcell__",
    ]
)

_FUNC_TYPES = (
    types.FunctionType,
    types.BuiltinFunctionType,
    types.MethodType,
    types.MethodWrapperType,
    types.WrapperDescriptorType,
    types.MethodDescriptorType,
    types.ClassMethodDescriptorType,
)


_PLAIN_LEAF = (int, bool, float, str, bytes, type(None), complex)
_EXACT_KIND = {int: "int", str: "str", bool: "bool", float: "float", type(None): "none", tuple: "tuple", list: "list"}


def _ptype(o):
    """(call under NoTracing) the Python type a value pretends to have (symbolic values report the
    type they model); same rule as crosshair.core.python_type"""
    to = _real_type(o)
    if HAVE_CH and _real_hasattr(to, "__ch_pytype__"):
        try:
            ot = o.__ch_pytype__()
            return getattr(ot, "__origin__", ot)
        except Exception:
            return to
    return to


def _plain(v, depth=0):
    """(call under NoTracing) True iff v consists of real builtin scalars/lists/tuples/dicts only,
    i.e. contains no symbolic value and no object with behaviour"""
    t = _real_type(v)
    if t in _PLAIN_LEAF:
        return True
    if depth > 8:
        return False
    if t is list or t is tuple:
        for x in v:
            if not _plain(x, depth + 1):
                return False
        return True
    if t is dict:
        for k, x in v.items():
            if not (_plain(k, depth + 1) and _plain(x, depth + 1)):
                return False
        return True
    return False


def canon(v, depth=0, seen=None):
    """Structural canonical form in which symbolic leaves stay symbolic.  Never calls str()/repr()
    on data.  bool/float are tagged so that 1, True and 1.0 (equal, but printed differently) are
    told apart."""
    if depth == 0 and HAVE_CH and _is_tracing():
        # fast path: fully concrete plain data is canonicalised at native speed
        with _ChNoTracing():
            if _plain(v):
                return canon(v, 0, None)
    with NoTracing():
        t = _ptype(v)
        kind = _EXACT_KIND.get(t)
    if kind is not None:
        # exact builtin type: no isinstance chain (every isinstance is an intercepted call)
        if kind == "int" or kind == "str":
            return v
        if kind == "bool":
            return ("b", v)
        if kind == "float":
            return ("f", v)
        if kind == "none":
            return ("k", 0)
        if kind == "tuple" and depth <= 6:
            return ("T",) + tuple([canon(x, depth + 1, seen) for x in v])
        if kind == "list" and depth <= 6:
            return ("L",) + tuple([canon(x, depth + 1, seen) for x in v])
    if v is None or v is Ellipsis or v is NotImplemented:
        return ("k", 0 if v is None else (1 if v is Ellipsis else 2))
    if isinstance(v, bool):
        return ("b", v)
    if isinstance(v, int):
        return v
    if isinstance(v, float):
        return ("f", v)
    if isinstance(v, complex):
        return ("c", v)
    if isinstance(v, str):
        return v
    if isinstance(v, (bytes, bytearray)):
        return ("y", bytes(v))
    if depth > 6:
        return ("deep",)
    with NoTracing():
        if seen is None:
            seen = set()
        key = id(v)
        cyc = key in seen
        if not cyc:
            seen.add(key)
    if cyc:
        return ("cycle",)
    try:
        if isinstance(v, tuple):
            return ("T",) + tuple(canon(x, depth + 1, seen) for x in v)
        if isinstance(v, list):
            return ("L",) + tuple(canon(x, depth + 1, seen) for x in v)
        if isinstance(v, dict):
            return ("D",) + tuple(
                (canon(k, depth + 1, seen), canon(x, depth + 1, seen)) for k, x in v.items()
            )
        if isinstance(v, (set, frozenset)):
            return ("S", len(v), v)
        if isinstance(v, range):
            return ("range", v.start, v.stop, v.step)
        if isinstance(v, slice):
            return (
                "slice",
                canon(v.start, depth + 1, seen),
                canon(v.stop, depth + 1, seen),
                canon(v.step, depth + 1, seen),
            )
        if isinstance(v, types.ModuleType):
            return ("<mod>", v.__name__)
        if isinstance(v, _FUNC_TYPES):
            return ("<fn>",)
        if isinstance(v, (staticmethod, classmethod)):
            return ("<" + type(v).__name__ + ">",)
        if isinstance(v, property):
            return ("<property>", v.fset is not None, v.fdel is not None)
        if isinstance(v, type):
            with NoTracing():
                builtin_cls = v.__module__ == "builtins" and v.__name__ in builtins.__dict__
            if builtin_cls:
                return ("<builtin-class>", v.__name__)
            attrs = []
            with NoTracing():
                names = sorted(n for n in v.__dict__ if n not in _CLASS_ATTR_SKIP)
            for n in names:
                member = v.__dict__[n]
                if n in ("__new__", "__init_subclass__", "__class_getitem__") and isinstance(member, (staticmethod, classmethod)):
                    # type.__new__ wraps these implicitly when they are in the namespace at class
                    # creation; a plain function installed later behaves the same when called
                    member = member.__func__
                attrs.append((n, canon(member, depth + 1, seen)))
            return (
                "<class>",
                v.__name__,
                tuple(b.__name__ for b in v.__bases__),
                type(v).__name__,
                tuple(attrs),
            )
        with NoTracing():
            user_inst = _real_hasattr(v, "__dict__") and _real_type(v).__module__ != "builtins"
        if user_inst:
            with NoTracing():
                names = sorted(vars(v))
            return (
                "<inst>",
                type(v).__name__,
                tuple((n, canon(vars(v)[n], depth + 1, seen)) for n in names),
            )
        with NoTracing():
            tn = _real_type(v).__name__
        return ("<obj>", tn)
    finally:
        with NoTracing():
            seen.discard(key)


# --------------------------------------------------------------------------------------------
# environment of a co-execution
# --------------------------------------------------------------------------------------------
class Stop(Exception):
    """event budget exhausted (raised identically on both sides)"""


_OPNAMES = ["add", "sub", "mul", "matmul", "truediv", "floordiv", "mod", "pow", "lshift", "rshift", "and", "or", "xor"]


def _make_user_values(ev):
    """User-defined operand classes for augmented assignment: every dunder logs its call.
    kinds: u_self (in-place method mutates and returns self), u_new (in-place method returns a new
    object), u_notimpl (in-place method returns NotImplemented, binary method works), u_noiop (no
    in-place method), u_reflected (only reflected methods), u_allnotimpl (in-place and binary both
    return NotImplemented)."""
    classes = {}

    class UPlain:
        def __init__(self, tag):
            self.tag = tag

    def ensure():
        if not classes:
            for k in ("u_self", "u_new", "u_notimpl", "u_noiop", "u_reflected", "u_allnotimpl"):
                classes[k] = build(k)

    def build(kind):
        ns = {}

        def __init__(self, tag):
            self.tag = tag

        ns["__init__"] = __init__

        def tagof(o):
            return getattr(o, "tag", o)

        for name in _OPNAMES:

            def mk(name):
                def iop(self, other, *m):
                    ev(("call", "__i%s__" % name, canon(self.tag), canon(tagof(other))))
                    if kind == "u_self":
                        self.tag = (self.tag, "i" + name, tagof(other))
                        return self
                    if kind == "u_new":
                        return classes[kind]((self.tag, "i" + name, tagof(other)))
                    return NotImplemented

                def op(self, other, *m):
                    ev(("call", "__%s__" % name, canon(self.tag), canon(tagof(other))))
                    if kind == "u_allnotimpl":
                        return NotImplemented
                    return classes[kind]((self.tag, name, tagof(other)))

                def rop(self, other, *m):
                    ev(("call", "__r%s__" % name, canon(self.tag), canon(tagof(other))))
                    return classes[kind]((tagof(other), "r" + name, self.tag))

                return iop, op, rop

            iop, op, rop = mk(name)
            if kind in ("u_self", "u_new", "u_notimpl", "u_allnotimpl"):
                ns["__i%s__" % name] = iop
            if kind in ("u_self", "u_new", "u_notimpl", "u_noiop", "u_allnotimpl"):
                ns["__%s__" % name] = op
            if kind == "u_reflected":
                ns["__r%s__" % name] = rop
        return _real_type("UV_" + kind, (), ns)

    def UV(kind, tag):
        ensure()
        return classes[kind](tag)

    return UV, UPlain


class Env:
    """One run of one side.  `inputs` maps parameter names to (possibly symbolic) values:
    B  -- schedule of condition outcomes consumed by cond(); False when exhausted
    NS -- NS[i] = number of items the iterable It(i) yields
    every other entry is injected as a global of that name."""

    def __init__(self, inputs, budget=60, real_print=None, extra=None, need=None):
        self.trace = []
        self.budget = budget
        self.pos = 0
        self.B = inputs.get("B", [])
        self.NS = inputs.get("NS", [])
        env = self

        def ev(x):
            env.trace.append(x)
            with NoTracing():
                over = len(env.trace) > env.budget
            if over:
                raise Stop()

        def log(*a):
            ev(("log",) + tuple(canon(x) for x in a))

        def mark(i):
            ev(("m", i))

        def cond(i=None, *rest):
            # cond(i): consume the next scheduled outcome;  cond(i, v): log the truth value of v and
            # return v unchanged (data-dependent condition)
            if rest:
                v = rest[0]
                b = True if v else False
                ev(("c", i, b))
                return v
            k = env.pos
            env.pos = k + 1
            b = env.B[k] if k < len(env.B) else False
            b = True if b else False
            ev(("c", i, b))
            return b

        def probe(i, v=None):
            ev(("p", i))
            return v

        def val(v):
            # C06: make the identity of a binding observable (functions/classes/modules carry the
            # symbolic value of their binding site)
            with NoTracing():
                t = _ptype(v)
                k = 1 if t is types.FunctionType else (2 if isinstance(v, type) else (3 if t is types.ModuleType else 0))
            if k == 1:
                return ("fn", v())
            if k == 2:
                return ("cls", v.__dict__.get("v"))
            if k == 3:
                return ("mod", v.__name__)
            return v

        need_all = need is None

        class It:
            def __init__(self, i):
                self.i = i
                self.k = 0
                self.n = env.NS[i] if i < len(env.NS) else 0

            def __iter__(self):
                ev(("iter", self.i))
                return self

            def __next__(self):
                ev(("next", self.i, self.k))
                if self.k >= self.n:
                    raise StopIteration
                self.k += 1
                return self.k

            # generator-like extras: a `for` statement never calls them, whoever does is logged
            def close(self):
                ev(("close", self.i))
                self.k = self.n

            def send(self, v):
                ev(("send", self.i))
                return self.__next__()

            def throw(self, *a):
                ev(("throw", self.i))
                raise StopIteration

        class Box:
            """logging container / attribute holder: counts loads and stores"""

            def __init__(self):
                object.__setattr__(self, "_d", {})

            def __getitem__(self, k):
                ev(("getitem", canon(k)))
                return self._d[k]

            def __setitem__(self, k, v):
                ev(("setitem", canon(k)))
                self._d[k] = v

            def __setattr__(self, n, v):
                ev(("setattr", n))
                object.__setattr__(self, n, v)

            def __getattribute__(self, n):
                if not n.startswith("_"):
                    ev(("getattr", n))
                return object.__getattribute__(self, n)

        UV, UPlain = _make_user_values(ev)

        def rec_print(*a, **kw):
            ev(("print", tuple(canon(x) for x in a), tuple(sorted((k, canon(v)) for k, v in kw.items()))))

        with NoTracing():
            g = {}
            bi = dict(builtins.__dict__)
            g["__builtins__"] = bi
            g["__name__"] = "__main__"
            helpers = {"log": log, "mark": mark, "cond": cond, "probe": probe, "val": val, "It": It, "Box": Box, "UV": UV, "UPlain": UPlain}
            helpers["print"] = real_print if real_print is not None else rec_print
            g.update(helpers)
            if extra:
                g.update(extra)
            self.base = set(g)
        if "IMP_PRE" in inputs:
            # C14: stub import system (same stub class on both sides)
            from .models.importstub import ImportStub

            anchor = inputs.get("IMP_ANCHOR", 0)
            stub = ImportStub(ev, inputs["IMP_PRE"], True if inputs.get("IMP_OTHER_ATTR") else False, inputs.get("V", []))
            with NoTracing():
                g["__builtins__"]["__import__"] = stub.__import__
            pk = "pkg.sub" if anchor else "pkg"
            g["__package__"] = pk
            g["__name__"] = pk + ".mod"
            self.import_stub = stub
        for k, v in inputs.items():
            if k not in ("B", "NS", "IMP_PRE", "IMP_OTHER_ATTR", "IMP_ANCHOR"):
                g[k] = v
        with NoTracing():
            self.base = set(g)
        self.g = g

    def user_globals(self, src_keys=None):
        """canonical final user globals: names not present before the run, not reserved"""
        with NoTracing():
            names = sorted(
                k
                for k in self.g
                if k not in self.base
                and not (isinstance(k, str) and k.startswith("__ol_"))
                and not (isinstance(k, str) and k.startswith("__") and k.endswith("__"))  # module metadata (__annotations__ ...)
            )
            if src_keys is not None:
                names = [
                    k for k in names if not (k in ("itertools", "importlib") and k not in src_keys)
                ]
        return names


HOOKS = {}


def hook_call_f(g, inputs, meta):
    """C11: call the function bound to `f` with a symbolic call shape.
    npos positionals taken from A, keyword subset number ks of meta['kwsets'] (values from K),
    optionally passed through *args / **kwargs.  Result: ('ok', value) | ('TypeError',)."""
    npos = pick(inputs["npos"], meta["maxpos"] + 1)
    ks = pick(inputs["ks"], len(meta["kwsets"]))
    star = pick_bool(inputs["star"])
    # argument values: distinct concrete ints (binding errors are visible for any distinct values;
    # symbolic values only multiply solver queries), unless the template supplies symbolic A / K
    A = inputs.get("A") or [100, 101, 102, 103, 104, 105, 106]
    K = inputs.get("K") or [200, 201, 202, 203, 204, 205, 206, 207]
    args = [A[i] for i in range(npos)]
    with NoTracing():
        names = list(meta["kwsets"][ks])
    kwargs = {}
    for j, n in enumerate(names):
        kwargs[n] = K[j]
    f = g["f"]
    try:
        if star:
            r = f(*args, **kwargs)
        else:
            r = _direct_call(f, args, kwargs)
    except TypeError:
        return ("TypeError",)
    return ("ok", canon(r))


def _direct_call(f, args, kwargs):
    # explicit positional arity so that CALL (not CALL_FUNCTION_EX) is exercised where possible
    n = len(args)
    if n == 0:
        return f(**kwargs)
    if n == 1:
        return f(args[0], **kwargs)
    if n == 2:
        return f(args[0], args[1], **kwargs)
    if n == 3:
        return f(args[0], args[1], args[2], **kwargs)
    return f(*args, **kwargs)


HOOKS["call_f"] = hook_call_f


def run_side(code, mode, inputs, observe="trace+globals", budget=60, src_keys=None, real_print=None, extra=None, hook=None, meta=None, ignore=()):
    """Returns ('ok', trace, globals-record) | ('raised', exception type name, trace)."""
    env = Env(inputs, budget=budget, real_print=real_print, extra=extra)
    g = env.g
    try:
        if mode == "exec":
            exec(code, g, g)  # ALWAYS pass locals explicitly (CrossHair patches exec/eval)
        else:
            eval(code, g, g)
    except Stop:
        env.trace.append(("STOP",))
        return ("ok", tuple(env.trace), ("stopped",), None), None
    except Exception as e:  # not BaseException: CrossHair steers paths with BaseExceptions
        with NoTracing():
            tn = _real_type(e).__name__
        return ("raised", tn, tuple(env.trace)), None
    names = env.user_globals(src_keys)
    if ignore:
        with NoTracing():
            names = [n for n in names if n not in ignore]
    if "globals" in observe:
        rec = tuple((n, canon(g[n])) for n in names)
    else:
        rec = ()
    if hook:
        try:
            extra_rec = HOOKS[hook](g, inputs, meta)
        except Stop:
            extra_rec = ("STOP",)
        except Exception as e:
            with NoTracing():
                tn = _real_type(e).__name__
            extra_rec = ("hook-raised", tn)
        return ("ok", tuple(env.trace), rec, extra_rec), names
    return ("ok", tuple(env.trace), rec, None), names


class Obligation:
    def __init__(self, d):
        self.d = d
        self.oid = d["oid"]
        self.src = d["src"]
        self.out = d["out"]
        self.observe = d.get("observe", "trace+globals")
        self.budget = d.get("budget", 60)
        self.hook = d.get("hook")
        self.meta = d.get("meta")
        self.ignore = tuple(d.get("ignore_globals") or ())
        self.src_code = compile(self.src, "<source>", "exec")
        self.out_code = compile(self.out, "<converted>", "eval")


def load_obligations(path):
    with open(path) as f:
        data = json.load(f)
    return [Obligation(d) for d in data]


def coexec(ob, inputs, real_print=None, detail=False):
    """The co-execution obligation: same inputs, same environment, equal observations.
    A source run that raises is outside the supported fragment for that input."""
    count(ob.oid, "paths")
    a, names = run_side(ob.src_code, "exec", inputs, ob.observe, ob.budget, None, real_print, None, ob.hook, ob.meta, ob.ignore)
    if a[0] == "raised":
        if detail:
            return True, a, None
        return True
    count(ob.oid, "reached")
    with NoTracing():
        src_keys = set(names) if names is not None else set()
    b, _ = run_side(ob.out_code, "eval", inputs, ob.observe, ob.budget, src_keys, real_print, None, ob.hook, ob.meta, ob.ignore)
    ok = a == b
    if detail:
        return ok, a, b
    return ok
