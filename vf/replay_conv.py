"""Replay of a conversion-level divergence (converter rejects a supported program, or emits text
that is not an expression): re-run the real converter of the tree under test."""
import random

from . import common


def replay(rec):
    ol = common.import_repo()
    from oneliner.config import Configs

    out = []
    if rec.get("divergence") == "temporaries-collide":
        # C09: a temporary of the output was not named during this conversion, or two share a suffix
        from .families import c09 as fam

        for cfg in rec["configs"]:
            u, w, i = cfg.split("/")
            c = Configs()
            c.unparser, c.expr_wrapper, c.if_style = u, w, i
            foreign, made, text = fam.suffix_provenance(ol, rec["src"], c)
            bad = bool(foreign) or not fam.temporaries_distinct(text)
            out.append((cfg, "temporaries-collide" if bad else None))
        return {"reproduced": any(d for _, d in out), "divergence": "temporaries-collide", "per_config": out}
    for cfg in rec["configs"]:
        u, w, i = cfg.split("/")
        c = Configs()
        c.unparser = u
        c.expr_wrapper = w
        c.if_style = i
        random.seed(0)
        try:
            text = ol.convert_code_string(rec["src"], configs=c)
        except Exception as e:
            out.append((cfg, "rejected:%s" % type(e).__name__))
            continue
        if "\n" in text or "\r" in text:
            out.append((cfg, "line-break"))
            continue
        try:
            compile(text, "<converted>", "eval")
            out.append((cfg, None))
        except (SyntaxError, ValueError):
            out.append((cfg, "compile-error"))
    want = rec.get("divergence")
    rep = any(d is not None and (want is None or d == want) for _, d in out)
    return {"reproduced": rep, "divergence": want, "per_config": out}
