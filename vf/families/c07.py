"""C07 family: statement templates in which every subexpression is a logging probe
probe(i, value): logs ('p', i) and returns value.  Observed: the ordered probe log (plus the
logging container's load/store events and the final values)."""

SETUP = "class O: pass\no = O()\no.a = 0\no.b = O()\no.b.c = 0\nL = [0, 1, 2, 3]\nD = {'k': 0, 'j': 1}\ndef ident(*a, **k):\n    return (a, sorted(k.items()))\n"

AUG_OPS = [("+", "add"), ("-", "sub"), ("*", "mul"), ("@", "matmul"), ("/", "truediv"), ("//", "floordiv"), ("%", "mod"), ("**", "pow"), ("<<", "lshift"), (">>", "rshift"), ("&", "and"), ("|", "or"), ("^", "xor")]


def templates():
    """yield (desc, src, params, pre)"""
    I = [("i", "int")]
    AB = [("a", "int"), ("b", "int")]
    T = {}
    # --- plain assignment targets
    T["assign:attr"] = ("probe(0, o).a = probe(1, a)\nlog(o.a)\n", [("a", "int")], "True")
    T["assign:attr2"] = ("probe(0, o).b.c = probe(1, a)\nlog(o.b.c)\n", [("a", "int")], "True")
    T["assign:sub"] = ("probe(0, L)[probe(1, i)] = probe(2, 9)\nlog(L)\n", I, "-4 <= i <= 3")
    T["assign:sub_box"] = ("B = Box()\nprobe(0, B)[probe(1, i)] = probe(2, 9)\nlog(B[i])\n", I, "-2 <= i <= 2")
    for m in range(8):
        lo, hi, st = m & 1, (m >> 1) & 1, (m >> 2) & 1
        sl = "%s:%s%s" % ("probe(1, 0)" if lo else "", "probe(2, 2)" if hi else "", ":probe(3, 1)" if st else "")
        T["assign:slice%d%d%d" % (lo, hi, st)] = ("probe(0, L)[%s] = probe(4, [7, 8])\nlog(L)\n" % sl, [], "True")
    T["assign:chain_name"] = ("x = y = probe(0, [a])\nlog(x, y, x is y)\n", [("a", "int")], "True")
    T["assign:chain_mixed"] = ("probe(0, o).a = probe(1, L)[probe(2, 1)] = x = probe(3, [a])\nlog(o.a is x, L[1] is x)\n", [("a", "int")], "True")
    T["assign:tuple_targets"] = ("probe(0, o).a, probe(1, L)[probe(2, 0)] = probe(3, (a, b))\nlog(o.a, L)\n", AB, "True")
    T["assign:star_targets"] = ("probe(0, o).a, *probe(1, o).b.c = probe(2, [a, b, a])\nlog(o.a, o.b.c)\n", AB, "True")
    T["assign:nested_targets"] = ("(probe(0, o).a, (probe(1, L)[probe(2, 1)], x)) = probe(3, (a, (b, a)))\nlog(o.a, L, x)\n", AB, "True")
    T["assign:value_before_target"] = ("probe(0, D)[probe(1, 'k')] = probe(2, a)\nlog(D)\n", [("a", "int")], "True")
    T["assign:list_pattern"] = ("[probe(0, o).a, probe(1, D)[probe(2, 'z')]] = probe(3, iter([a, b]))\nlog(o.a, D)\n", AB, "True")
    T["assign:ann"] = ("probe(0, o).a: int = probe(1, a)\nlog(o.a)\n", [("a", "int")], "True")
    # --- augmented assignment: 13 operators x 4 target kinds
    for sym, name in AUG_OPS:
        if sym == "@":
            lv, rv = "UV('u_noiop', 1)", "UV('u_noiop', 2)"
        elif sym in ("/",):
            lv, rv = "12", "5"
        elif sym == "**":
            lv, rv = "3", "2"
        else:
            lv, rv = "12", "5"
        T["aug:%s:name" % name] = ("x = %s\nx %s= probe(0, %s)\nlog(x)\n" % (lv, sym, rv), [], "True")
        T["aug:%s:attr" % name] = ("o.a = %s\nprobe(0, o).a %s= probe(1, %s)\nlog(o.a)\n" % (lv, sym, rv), [], "True")
        T["aug:%s:sub" % name] = ("L[1] = %s\nprobe(0, L)[probe(1, 1)] %s= probe(2, %s)\nlog(L[1])\n" % (lv, sym, rv), [], "True")
        T["aug:%s:subbox" % name] = ("B = Box()\nB['k'] = %s\nprobe(0, B)[probe(1, 'k')] %s= probe(2, %s)\nlog(B['k'])\n" % (lv, sym, rv), [], "True")
        T["aug:%s:attrbox" % name] = ("B = Box()\nB.v = %s\nprobe(0, B).v %s= probe(1, %s)\nlog(B.v)\n" % (lv, sym, rv), [], "True")
        if sym in ("+", "*"):
            r = "[9]" if sym == "+" else "2"
            T["aug:%s:slice" % name] = ("probe(0, L)[probe(1, 0):probe(2, 2)] %s= probe(3, %s)\nlog(L)\n" % (sym, r), [], "True")
    # --- def: defaults and decorators
    T["def:defaults"] = ("def f(p=probe(0, a), *, q=probe(1, b)):\n    return (p, q)\nlog(f(), f(1, q=2))\n", AB, "True")
    T["def:defaults_once"] = ("def f(p=probe(0, [])):\n    p.append(a)\n    return p\nlog(f(), f(), f() is f())\n", [("a", "int")], "True")
    T["def:decorators"] = (
        "def deco(tag):\n    def d(fn):\n        probe(10 + tag)\n        def w(*x):\n            return (tag, fn(*x))\n        return w\n    return d\n@probe(0, deco(1))\n@probe(1, deco)(probe(2, 2))\ndef f(p=probe(3, a)):\n    return p\nlog(f())\n",
        [("a", "int")],
        "True",
    )
    T["def:posonly_kwonly_defaults"] = ("def f(p=probe(0, 1), /, q=probe(1, 2), *r, s=probe(2, 3), t, **u):\n    return (p, q, r, s, t, sorted(u))\nlog(f(t=a))\n", [("a", "int")], "True")
    T["def:default_scope"] = ("z = a\ndef outer():\n    z = b\n    def f(p=probe(0, z)):\n        return p\n    return f\nlog(outer()())\n", AB, "True")
    # --- class: bases, keywords, metaclass, decorators
    T["class:bases_kw_meta"] = (
        "class M(type):\n    def __new__(m, n, b, ns, **kw):\n        c = super().__new__(m, n, b, ns)\n        c.kw = sorted(kw.items())\n        return c\n    def __init__(c, n, b, ns, **kw):\n        super().__init__(n, b, ns)\nclass A: pass\nclass B_: pass\ndef cd(c):\n    probe(9)\n    c.deco = True\n    return c\nclass C(probe(0, A), probe(1, B_), metaclass=probe(2, M), kw=probe(3, a)):\n    v = probe(4, b)\nlog(C.kw, C.v, [k.__name__ for k in C.__mro__][:3])\n",
        AB,
        "True",
    )
    CDECO = "def cdeco(tag):\n    def d(c):\n        probe(20 + tag)\n        c.tags = getattr(c, 'tags', ()) + (tag,)\n        return c\n    return d\nclass A: pass\n"
    T["class:decorators2"] = (CDECO + "@probe(0, cdeco)(probe(1, 1))\n@probe(2, cdeco)(probe(3, 2))\nclass C(probe(4, A)):\n    v = probe(5, a)\nlog(C.tags, C.v)\n", [("a", "int")], "True")
    T["class:decorators3_mixed"] = (CDECO + "d0 = cdeco(0)\n@probe(0, cdeco)(probe(1, 1))\n@d0\n@probe(2, cdeco(2))\nclass C:\n    v = probe(3, a)\nlog(C.tags, C.v)\n", [("a", "int")], "True")
    T["class:decorators_in_function"] = (CDECO + "def mk():\n    @probe(0, cdeco)(probe(1, 1))\n    @probe(2, cdeco)(probe(3, 2))\n    class C(probe(4, A)):\n        def who(self):\n            return C.tags\n    return C\nlog(mk()().who())\n", [], "True")
    T["class:decorators_in_class"] = (CDECO + "class Outer:\n    @probe(0, cdeco)(probe(1, 1))\n    @probe(2, cdeco)(probe(3, 2))\n    class C(probe(4, A)):\n        pass\nlog(Outer.C.tags)\n", [], "True")
    T["class:name_decorator_rebound_by_body"] = ("def dn1(c):\n    probe(11)\n    c.by = 1\n    return c\ndef dn2(c):\n    probe(12)\n    c.by = 2\n    return c\ndn = dn1\ndef swap():\n    global dn\n    dn = dn2\n    return a\n@dn\nclass C:\n    v = probe(0, swap())\nlog(C.by, C.v, dn is dn2)\n", [("a", "int")], "True")
    T["def:name_decorator_rebound_by_default"] = ("def dn1(f):\n    probe(11)\n    return f\ndef dn2(f):\n    probe(12)\n    return lambda *x: 'dn2'\ndn = dn1\ndef swap():\n    global dn\n    dn = dn2\n    return a\n@dn\ndef f(p=probe(0, swap())):\n    return p\nlog(f(), dn is dn2)\n", [("a", "int")], "True")
    T["class:bases_keywords_no_meta"] = ("class IS:\n    def __init_subclass__(cls, **kw):\n        cls.kw = sorted(kw.items())\nclass A: pass\nclass C(probe(0, A), probe(1, IS), k1=probe(2, a), k2=probe(3, b)):\n    pass\nlog(C.kw)\n", AB, "True")
    T["def:decorators_defaults_order"] = ("def deco(tag):\n    def d(fn):\n        probe(30 + tag)\n        return fn\n    return d\n@probe(0, deco)(probe(1, 1))\n@probe(2, deco)(probe(3, 2))\ndef f(p=probe(4, a), *, q=probe(5, b)):\n    return (p, q)\nlog(f())\n", AB, "True")
    T["def:method_decorators_defaults"] = ("def deco(tag):\n    def d(fn):\n        probe(30 + tag)\n        return fn\n    return d\nclass K:\n    @probe(0, deco)(probe(1, 1))\n    @probe(2, deco)(probe(3, 2))\n    def m(self, p=probe(4, a)):\n        return p\nlog(K().m())\n", [("a", "int")], "True")
    # --- methods with special names (the converter wraps some of them): header evaluated once
    MD = "def deco(tag):\n    def d(fn):\n        probe(30 + tag)\n        return fn\n    return d\n"
    for mname, params, use in (
        ("m", "self", "K().m()"),
        ("__init__", "self", "K().pv"),
        ("__init_subclass__", "cls, **kw", "Sub.pv"),
        ("__class_getitem__", "cls, item=None", "K[1]"),
        ("__call__", "self", "K()()"),
        ("__new__", "cls", "K.pv"),
    ):
        for dk, decos in (("plain", []), ("deco", ["@probe(0, deco)(probe(1, 1))"]), ("deco2", ["@probe(0, deco)(probe(1, 1))", "@probe(2, deco(2))"]), ("explicit_cm", ["@classmethod", "@probe(0, deco)(probe(1, 1))"])):
            if dk == "explicit_cm" and mname not in ("__init_subclass__", "__class_getitem__"):
                continue
            if mname == "__new__":
                body = ["        o = super().__new__(cls)", "        cls.pv = (p, q)", "        return o"]
                use_lines = ["K()", "log(K.pv)"]
            elif mname in ("__init__",):
                body = ["        self.pv = (p, q)"]
                use_lines = ["log(%s)" % use]
            elif mname == "__init_subclass__":
                body = ["        cls.pv = (p, q)"]
                use_lines = ["class Sub(K): pass", "log(Sub.pv)"]
            else:
                body = ["        return (p, q)"]
                use_lines = ["log(%s)" % use]
            lines = ["class K:"] + ["    " + d for d in decos] + ["    def %s(%s, p=probe(5, a), *, q=probe(6, b)):" % (mname, params.replace(", **kw", "").replace(", item=None", ", item=None")) if "**kw" not in params else "    def %s(cls, p=probe(5, a), *, q=probe(6, b), **kw):" % mname] + body + use_lines
            T["method:%s:%s" % (mname, dk)] = (MD + "\n".join(lines) + "\n", AB, "True")
    T["class:body_order"] = ("class C:\n    x = probe(0, a)\n    y = probe(1, x + 1)\n    def m(self, p=probe(2, y)):\n        return p\n    z = probe(3, b)\nlog(C.x, C.y, C().m(), C.z)\n", AB, "True")
    # --- headers
    T["if:elif"] = ("if probe(0, a > 0):\n    mark(0)\nelif probe(1, b > 0):\n    mark(1)\nelif probe(2, a == b):\n    mark(2)\nelse:\n    mark(3)\n", AB, "True")
    T["while:test"] = ("n = 0\nwhile probe(0, n < a):\n    n += 1\n    if probe(1, n == b):\n        break\nelse:\n    mark(0)\nlog(n)\n", AB, "0 <= a <= 3 and 0 <= b <= 3")
    T["for:iter_once"] = ("for x in probe(0, [a, b]):\n    mark(0)\n    if probe(1, x == b):\n        break\nelse:\n    mark(1)\n", AB, "True")
    T["for:attr_target"] = ("for probe(0, o).a in probe(1, [a, b]):\n    log(o.a)\n", AB, "True")
    T["for:sub_target"] = ("for probe(0, L)[probe(1, 0)] in probe(2, [a, b]):\n    log(L[0])\n", AB, "True")
    T["for:tuple_target"] = ("for p, (q, *r) in probe(0, [(a, (b, a, b)), (b, (a,))]):\n    log(p, q, r)\n", AB, "True")
    T["return:value"] = ("def f():\n    for x in probe(0, [a, b]):\n        if probe(1, x == b):\n            return probe(2, x)\n    return probe(3, -1)\nlog(f())\n", AB, "True")
    T["expr:stmt"] = ("probe(0, ident)(probe(1, a), *probe(2, [b]), k=probe(3, a), **probe(4, {'z': b}))\nlog(probe(5, ident)(probe(6, a)))\n", AB, "True")
    T["expr:call_order"] = ("log(probe(0, ident)(probe(1, a), *probe(2, [b]), k=probe(3, a), **probe(4, {'z': b})))\n", AB, "True")
    T["expr:call_order_dstar_first"] = ("log(probe(0, ident)(probe(1, a), **probe(2, {'z': b}), k=probe(3, a), **probe(4, {'y': b}), m=probe(5, 0)))\nclass MK(type):\n    def __new__(m, n, bs, ns, **kw):\n        c = super().__new__(m, n, bs, ns)\n        c.kw = list(kw)\n        return c\n    def __init__(c, n, bs, ns, **kw):\n        super().__init__(n, bs, ns)\nclass CK(metaclass=MK, **probe(6, {'p': 1}), q=probe(7, 2)):\n    pass\nlog(CK.kw)\n", AB, "True")
    T["expr:comp"] = ("log([probe(0, x) for x in probe(1, [a, b, a]) if probe(2, x != b)])\nlog({probe(3, x): probe(4, a) for x in probe(5, [a, b])})\n", AB, "True")
    T["expr:ifexp_boolop"] = ("log(probe(0, a) if probe(1, a > b) else probe(2, b))\nlog(probe(3, a) and probe(4, b) or probe(5, 7))\nlog(probe(6, a) < probe(7, b) < probe(8, 10))\n", AB, "True")
    # (concrete values: CrossHair cannot format a symbolic int with a computed format spec; the
    # order and count of the evaluations do not depend on the values)
    # a conversion together with ANY format spec (f'{x!r:>4}') makes CrossHair 0.0.110 abort the path
    # ("Format specifier must be a string, not FormatStashingValue"): the two are in separate fields
    T["expr:fstring"] = ("log(f'{probe(0, 7):{probe(1, 3)}}|{probe(2, 42)!r}|{probe(3, 5):>{probe(4, 4)}}')\n", [], "True")
    T["expr:lambda_default"] = ("g = lambda p=probe(0, a): probe(1, p)\nlog(g(), g(b))\n", AB, "True")
    T["expr:walrus"] = ("log((w := probe(0, a)) + probe(1, w))\nlog(w)\n", [("a", "int")], "True")
    T["expr:subscript_slice"] = ("log(probe(0, L)[probe(1, 1):probe(2, 3)], probe(3, D)[probe(4, 'k')])\n", [], "True")
    T["expr:dict_set_display"] = ("log({probe(0, 'x'): probe(1, a), **probe(2, {'y': b}), probe(3, 'z'): probe(4, 0)})\nlog([probe(5, a), *probe(6, [b]), probe(7, a)])\n", AB, "True")
    T["import:order"] = ("import math as m1, cmath as m2\nfrom math import floor as fl, ceil as ce\nlog(m1.floor(2.5) + a, fl(1.5), ce(1.5))\n", [("a", "int")], "True")
    T["global:store_order"] = ("def f():\n    global gx, gy\n    gx = probe(0, a)\n    gy = probe(1, gx + b)\nf()\nlog(gx, gy)\n", AB, "True")
    T["nonlocal:store_order"] = ("def f():\n    t = probe(0, a)\n    def g():\n        nonlocal t\n        t = probe(1, t + b)\n        return t\n    return (g(), t)\nlog(f())\n", AB, "True")
    for k, (src, params, pre) in T.items():
        yield "C07:" + k, SETUP + src, params, pre
    # mixed probing: the converter decides per target whether the value must be saved first, by
    # looking at which parts of the target are "trivial" (names, constants); every subset of the
    # probes of a store template is therefore a separate case (the others are left unwrapped)
    for k, (src, params, pre) in T.items():
        if not k.startswith(("assign:", "for:attr", "for:sub")) and k not in ("aug:add:sub", "aug:add:attr", "aug:add:slice", "aug:matmul:sub", "aug:mod:subbox", "aug:add:attrbox"):
            continue
        for mask, vsrc in mixed_variants(src):
            yield "C07:mixed:%s:%s" % (k, mask), SETUP + vsrc, params, pre


def mixed_variants(src, max_probes=6):
    """every proper, non-empty subset of the two-argument probe(i, v) calls of `src` kept; the other
    probes are replaced by their value expression"""
    import ast

    tree = ast.parse(src)
    ids = sorted({n.args[0].value for n in ast.walk(tree) if isinstance(n, ast.Call) and isinstance(n.func, ast.Name) and n.func.id == "probe" and len(n.args) == 2 and isinstance(n.args[0], ast.Constant)})
    if not (2 <= len(ids) <= max_probes):
        return
    for m in range(1, 2 ** len(ids) - 1):
        keep = {ids[b] for b in range(len(ids)) if m >> b & 1}

        class Un(ast.NodeTransformer):
            def visit_Call(self, node):
                self.generic_visit(node)
                if isinstance(node.func, ast.Name) and node.func.id == "probe" and len(node.args) == 2 and isinstance(node.args[0], ast.Constant) and node.args[0].value not in keep:
                    return node.args[1]
                return node

        t2 = Un().visit(ast.parse(src))
        ast.fix_missing_locations(t2)
        yield "".join("1" if i in keep else "0" for i in ids), ast.unparse(t2) + "\n"
