"""C14 family: import statement forms x alias x placement x relative level over the abstract
package tree of vf.models.importstub."""

FORMS = {
    # name: (statement, observation expressions)
    "import_top": ("import top", ["top.__name__", "top.tv"]),
    "import_top_as": ("import top as t", ["t.__name__", "t.tv"]),
    "import_dotted": ("import pkg.sub", ["pkg.__name__", "pkg.sub.__name__", "pkg.sub.sv", "pkg.pv"]),
    "import_dotted_as": ("import pkg.sub as s", ["s.__name__", "s.sv"]),
    "import_dotted3": ("import pkg.sub.leaf", ["pkg.__name__", "pkg.sub.leaf.lv"]),
    "import_dotted3_as": ("import pkg.sub.leaf as l", ["l.__name__", "l.lv"]),
    "import_multi": ("import top, pkg.sub.leaf as l, pkg.sub", ["top.tv", "l.lv", "pkg.sub.sv"]),
    "import_multi_order": ("import pkg.sub.sib as b, pkg.sub.leaf as l, top as t", ["b.bv", "l.lv", "t.tv"]),
    "from_pkg_attr": ("from pkg import pv", ["pv"]),
    "from_pkg_attr_as": ("from pkg import pv as v", ["v"]),
    "from_pkg_submodule": ("from pkg import sub", ["sub.__name__", "sub.sv"]),
    "from_pkg_submodule_as": ("from pkg import sub as s", ["s.__name__"]),
    "from_pkg_other": ("from pkg import other", ["val(other)"]),
    "from_pkg_multi": ("from pkg import sub as s, pv, other as o", ["s.__name__", "pv", "val(o)"]),
    "from_sub_leaf": ("from pkg.sub import leaf, sv as v, sib", ["leaf.lv", "v", "sib.bv"]),
    "from_leaf_attr": ("from pkg.sub.leaf import lv", ["lv"]),
    "rel1_module": ("from . import other", ["val(other)"]),
    "rel1_sub": ("from .sub import leaf as l, sv", ["l.lv", "sv"]),
    "rel1_attr": ("from . import pv", ["pv"]),
    "rel2_module": ("from .. import sub", ["sub.__name__"]),
    "rel2_attr": ("from ..sub import sv as v", ["v"]),
    "rel1_sib": ("from .sib import bv", ["bv"]),
    "twice": ("import pkg.sub.leaf\nimport pkg.sub.leaf as l2\nfrom pkg.sub import leaf as l3", ["pkg.sub.leaf is l2", "l2 is l3"]),
    "import_then_from": ("import pkg\nfrom pkg import sub\nimport pkg.sub.leaf as l", ["pkg.sub is sub", "l is sub.leaf"]),
}

# several modules in one statement: every ordered pair of single-alias items -- in particular two
# items that bind the same name (`import pkg.sub.leaf, pkg.sub.sib` binds pkg twice; an alias that
# re-uses the name bound by the other item)
ITEMS = ["top", "top as t", "pkg", "pkg.sub", "pkg.sub as s", "pkg.sub.leaf", "pkg.sub.leaf as l", "pkg.sub.sib", "pkg.other as top", "pkg.sub as pkg"]
_ATTRS = ("sub", "leaf", "sib", "other", "pv", "sv", "lv", "bv", "tv", "ov")


def _pair_forms():
    out = {}
    for x, a in enumerate(ITEMS):
        for y, b in enumerate(ITEMS):
            if x == y:
                continue
            stmt = "import %s, %s" % (a, b)
            obs = []
            for n in bound_names(stmt):
                obs.append("val(%s)" % n)
                obs.append("sorted(k for k in vars(%s) if k in %r)" % (n, _ATTRS))
            out["pair_%d_%d" % (x, y)] = (stmt, obs)
    out["triple_same_top"] = ("import pkg.sub.leaf, top, pkg.sub.sib, pkg.other", ["val(pkg)", "val(top)", "sorted(k for k in vars(pkg.sub) if k in %r)" % (_ATTRS,), "sorted(k for k in vars(pkg) if k in %r)" % (_ATTRS,)])
    return out


def seq_programs():
    """two import statements that bind the SAME name, combined with control flow (the first one may
    not run: symbolic FLAG), a rebinding in between, repetition in a loop and in a function called
    twice: the binding of the second statement must not depend on the first having run"""
    same = []
    for a in ITEMS:
        for b in ITEMS:
            if a != b and bound_names("import " + a) == bound_names("import " + b):
                same.append((a, b))
    for a, b in same:
        n = bound_names("import " + a)[0]
        obs = "log(%r, val(%s), sorted(k for k in vars(%s) if k in %r))" % (n, n, n, _ATTRS)
        shapes = {
            "if": ["if FLAG:", "    import %s" % a, "import %s" % b, obs],
            "ifelse": ["if FLAG:", "    import %s" % a, "else:", "    import %s" % b, obs],
            "rebind_import": ["import %s" % a, "from top import tv as %s" % n, "import %s" % b, obs],
            "rebind_assign": ["import %s" % a, "%s = 5" % n, "import %s" % b, obs],
            "loop": ["for i in range(2):", "    import %s" % a, "    import %s" % b, "    " + obs],
            "loop_if": ["for i in range(2):", "    if FLAG == (i == 0):", "        import %s" % a, "    else:", "        import %s" % b, "    " + obs],
        }
        for sn, lines in shapes.items():
            yield "C14:seq:%s:%s|%s:module" % (sn, a, b), "\n".join(lines) + "\nlog('end')\n"
            body = lines + ["return 1"]
            yield "C14:seq:%s:%s|%s:function" % (sn, a, b), "def f():\n" + "\n".join("    " + l for l in body) + "\nlog(f())\nlog('unbound', %r in globals())\n" % n
        # a function called twice that takes a different branch each time
        f2 = ["def f(flag):", "    if flag:", "        import %s" % a, "    else:", "        import %s" % b, "    return val(%s)" % n, "log(f(FLAG))", "log(f(not FLAG))"]
        yield "C14:seq:func2:%s|%s:module" % (a, b), "\n".join(f2) + "\nlog('end')\n"


def programs(pairs=True):
    forms = dict(FORMS)
    if pairs:
        forms.update(_pair_forms())
    for fn, (stmt, obs) in forms.items():
        lines = stmt.split("\n")
        logs = ["log(%r, %s)" % (o, o) for o in obs]
        bound = bound_names(stmt)
        # module level
        yield "C14:%s:module" % fn, "\n".join(lines + logs) + "\nlog('end')\n"
        # function level: names are locals of the function
        body = lines + logs + ["return 1"]
        yield "C14:%s:function" % fn, "def f():\n" + "\n".join("    " + l for l in body) + "\nlog(f())\nlog('unbound', [n for n in %r if n in globals()])\n" % (bound,)
        # class level: names are class attributes
        body = lines + logs
        yield "C14:%s:class" % fn, "class K:\n" + "\n".join("    " + l for l in body) + "\nlog('attrs', sorted(n for n in vars(K) if not n.startswith('__')))\nlog('unbound', [n for n in %r if n in globals()])\n" % (bound,)
        # function with global declaration of the first bound name
        if bound:
            body = ["global %s" % bound[0]] + lines + ["return 1"]
            yield "C14:%s:function_global" % fn, "def f():\n" + "\n".join("    " + l for l in body) + "\nlog(f())\nlog('g', val(%s))\n" % bound[0]
        # captured by an inner function
        if bound:
            body = lines + ["def g():", "    return val(%s)" % bound[0], "return g()"]
            yield "C14:%s:captured" % fn, "def f():\n" + "\n".join("    " + l for l in body) + "\nlog(f())\n"


def bound_names(stmt):
    import ast

    out = []
    for st in ast.parse(stmt).body:
        for a in st.names:
            n = a.asname or a.name.split(".")[0]
            if n not in out:
                out.append(n)
    return out
