"""C06 family: scope trees.  Module + nested scopes of kinds F(unction) C(lass) L(ambda)
K(omprehension); every scope has one role for the tracked name x; every binding site stores a
different symbolic value V[i]; every scope logs x before and after calling its children."""
import itertools

ROLES = {
    "M": ["none", "assign", "aug", "walrus", "for", "for_leak", "def", "class", "import", "read", "cond_def"],
    "F": ["none", "assign", "aug", "walrus", "param", "for", "for_leak", "comp", "def", "class", "import", "global_assign", "global_read", "nonlocal_assign", "nonlocal_read", "nonlocal_aug", "read", "param_default", "cond_def", "cond_def_global"],
    "C": ["none", "assign", "aug", "aug_outer", "walrus", "for", "def", "class", "import", "global_assign", "nonlocal_assign", "read", "read_then_assign", "cond_def"],
    "L": ["none", "param", "read", "walrus", "param_default", "late_walrus", "inner_param"],
    "K": ["none", "target", "read", "walrus", "iter_read", "filter_walrus"],
}
STMT_KINDS = "MFC"


class Ctx:
    def __init__(self):
        self.sid = 0
        self.site = 0

    def next_sid(self):
        self.sid += 1
        return self.sid

    def val(self):
        i = self.site
        self.site += 1
        return "V[%d]" % i


def stmt_body(kind, role, sid, children, ctx):
    """lines (unindented) of a statement scope's body"""
    L = []
    inner_prefix = ""
    if role == "assign":
        L.append("x = %s" % ctx.val())
    elif role == "aug":
        L.append("x = %s" % ctx.val())
        L.append("x += %s" % ctx.val())
    elif role == "aug_outer":
        L.append("x += %s" % ctx.val())
    elif role == "walrus":
        L.append("log(%d, 'w', (x := %s))" % (sid, ctx.val()))
    elif role in ("for", "for_leak"):
        L.append("for x in [%s]:" % ctx.val())
        L.append("    log(%d, 'it', val(x))" % sid)
        if role == "for":
            inner_prefix = "    "
    elif role == "comp":
        L.append("log(%d, 'c', [val(x) for x in [%s]])" % (sid, ctx.val()))
    elif role == "def":
        L.append("def x(): return %s" % ctx.val())
    elif role == "class":
        L.append("class x: v = %s" % ctx.val())
    elif role == "import":
        L.append("import math as x")
    elif role == "global_assign":
        L.append("global x")
        L.append("x = %s" % ctx.val())
    elif role == "global_read":
        L.append("global x")
    elif role == "nonlocal_assign":
        L.append("nonlocal x")
        L.append("x = %s" % ctx.val())
    elif role == "nonlocal_read":
        L.append("nonlocal x")
    elif role == "nonlocal_aug":
        L.append("nonlocal x")
        L.append("x += %s" % ctx.val())
    elif role == "read_then_assign":
        L.append("log(%d, 'r0', val(x))" % sid)
        L.append("x = %s" % ctx.val())
    # binding sites that may not bind at run time (symbolic): a later read then falls back to the
    # enclosing binding (class body -> globals) instead of the scope's own
    elif role in ("cond_def", "cond_def_global"):
        # a definition in each branch of an if/else (the branch taken depends on a symbolic value):
        # exactly one of them must stay bound -- also when the name lives in a helper store
        if role == "cond_def_global":
            L.append("global x")
        L.append("if %s > 0:" % ctx.val())
        L.append("    def x(): return %s" % ctx.val())
        L.append("else:")
        L.append("    def x(): return %s" % ctx.val())
    elif role == "cond_assign":
        L.append("if %s > 0:" % ctx.val())
        L.append("    x = %s" % ctx.val())
    elif role == "for0":
        L.append("for x in []:")
        L.append("    pass")
    elif role == "cond_for":
        n = ctx.val()
        L.append("for x in ([%s] if %s > 0 else []):" % (ctx.val(), n))
        L.append("    pass")
    mentions = role not in ("none",)
    if mentions and role != "comp":
        L.append("%slog(%d, 'pre', val(x))" % (inner_prefix, sid))
    for ch in children:
        lines, call = scope(ch, ctx)
        L += [inner_prefix + l for l in lines]
        if call:
            L.append("%slog(%d, 'call', %s)" % (inner_prefix, sid, call))
    if mentions and role != "comp":
        L.append("%slog(%d, 'post', val(x))" % (inner_prefix, sid))
    if not L:
        L = ["pass"]
    return L


def scope(node, ctx):
    """node = (kind, role, children); returns (lines defining the scope, call expression|None)"""
    kind, role, children = node
    sid = ctx.next_sid()
    if kind == "F":
        param = ""
        if role == "param":
            param = "x=%s" % ctx.val()
        elif role == "param_default":
            param = "p=x"  # default value reads x in the DEFINING scope
        body = stmt_body("F", "read" if role == "param" else ("none" if role == "param_default" else role), sid, children, ctx)
        if role == "param_default":
            body = ["log(%d, 'pd', val(p))" % sid] + body
        lines = ["def f%d(%s):" % (sid, param)] + ["    " + l for l in body] + ["    return %d" % sid]
        return lines, "f%d()" % sid
    if kind == "C":
        body = stmt_body("C", role, sid, children, ctx)
        lines = ["class c%d:" % sid] + ["    " + l for l in body]
        return lines, None
    inner = ""
    if children:
        subs = [scope(c, ctx) for c in children]
        inner = "".join(", " + call for _, call in subs if call)
    if kind == "L":
        param = ""
        if role == "param":
            param = "x=%s" % ctx.val()
            expr = "(log(%d, 'rd', val(x))%s)" % (sid, inner)
        elif role == "param_default":
            param = "p=x"
            expr = "(log(%d, 'pd', val(p))%s)" % (sid, inner)
        elif role == "walrus":
            expr = "(log(%d, 'w', (x := %s)), log(%d, 'post', val(x))%s)" % (sid, ctx.val(), sid, inner)
        elif role == "late_walrus":
            # the read comes BEFORE the walrus in the syntax tree and AFTER it at run time
            expr = "((k := (lambda: val(x))), log(%d, 'w', (x := %s)), log(%d, 'post', k())%s)" % (sid, ctx.val(), sid, inner)
        elif role == "inner_param":
            # an inner lambda has a PARAMETER of the same spelling; the outer lambda reads the outer x
            expr = "(log(%d, 'ip', (lambda x: val(x))(%s)), log(%d, 'rd', val(x))%s)" % (sid, ctx.val(), sid, inner)
        elif role == "none":
            expr = "(log(%d, 'in')%s)" % (sid, inner)
        else:
            expr = "(log(%d, 'rd', val(x))%s)" % (sid, inner)
        return [], "(lambda %s: %s)()" % (param, expr)
    if kind == "K":
        if role == "target":
            expr = "[(log(%d, 't', val(x))%s) for x in [%s]]" % (sid, inner, ctx.val())
        elif role == "walrus":
            expr = "[(log(%d, 'w', (x := q))%s) for q in [%s]]" % (sid, inner, ctx.val())
        elif role == "read":
            expr = "[(log(%d, 'rd', val(x), q)%s) for q in [%s]]" % (sid, inner, ctx.val())
        elif role == "iter_read":
            expr = "[(log(%d, 'ir', q)%s) for q in [val(x)]]" % (sid, inner)
        elif role == "filter_walrus":
            # the element reads x, the walrus sits in the filter (converted later, evaluated earlier)
            expr = "[(log(%d, 'fw', val(x))%s) for q in [%s] if (x := q) is not None]" % (sid, inner, ctx.val())
        else:
            expr = "[(log(%d, 'in', q)%s) for q in [%s]]" % (sid, inner, ctx.val())
        if GEN_STYLE[0]:
            # generator expression: still a scope of its own on 3.12+ (list comprehensions are inlined)
            expr = "list(" + expr[1:-1] + ")"
        return [], expr
    raise ValueError(kind)


GEN_STYLE = [False]


def has_comp(children):
    return any(k == "K" or has_comp(ch) for k, _, ch in children)


def render_gen(mrole, children):
    GEN_STYLE[0] = True
    try:
        return render(mrole, children)
    finally:
        GEN_STYLE[0] = False


def render(mrole, children):
    ctx = Ctx()
    lines = stmt_body("M", mrole, 0, children, ctx)
    return "\n".join(lines) + "\nlog('end')\n", ctx.site


def node_desc(node):
    kind, role, children = node
    s = "%s=%s" % (kind, role)
    if children:
        s += "[" + ",".join(node_desc(c) for c in children) + "]"
    return s


def desc(mrole, children):
    return "C06:" + node_desc(("M", mrole, children))


def child_kinds(parent_kind):
    return "FCLK" if parent_kind in STMT_KINDS else "LK"


def chains(max_depth):
    """single chains of nested scopes below the module, depth 1..max_depth"""

    def rec(parent_kind, depth):
        if depth == 0:
            return
        for k in child_kinds(parent_kind):
            for r in ROLES[k]:
                yield (k, r, [])
                for sub in rec(k, depth - 1):
                    yield (k, r, [sub])

    for mrole in ROLES["M"]:
        for node in rec("M", max_depth):
            yield mrole, [node]


def chain_depth(node):
    return 1 + max([chain_depth(c) for c in node[2]] or [0])


def siblings():
    """a scope with two children (the second child sees what the first did): depth 2, two children
    of kinds F/L/K with the roles that interact"""
    inter = {
        "F": ["read", "nonlocal_assign", "nonlocal_aug", "global_assign", "assign", "param_default"],
        "L": ["read", "param_default"],
        "K": ["read", "walrus", "iter_read"],
        "C": ["read", "assign", "read_then_assign"],
    }
    for mrole in ("none", "assign"):
        for k1 in "FC":
            for r1 in ("assign", "param", "none", "walrus") if k1 == "F" else ("assign", "none"):
                if r1 not in ROLES[k1]:
                    continue
                for ka in "FLKC":
                    for ra in inter[ka]:
                        for kb in "FLK":
                            for rb in inter[kb]:
                                yield mrole, [(k1, r1, [(ka, ra, []), (kb, rb, [])])]


def nested_expr_siblings():
    """a function whose variable is captured by an inner def (so that it lives in the helper dict)
    and that also contains a comprehension/lambda binding or reading the same name with a NESTED
    comprehension/lambda inside it"""
    outer_roles = ["assign", "param", "nonlocal_assign"]
    capturers = [("F", "read", []), ("F", "nonlocal_aug", []), ("C", "read", [])]
    mids = [("K", "target"), ("L", "param"), ("K", "walrus"), ("K", "read"), ("L", "read"), ("K", "none"), ("L", "none"), ("L", "late_walrus"), ("L", "inner_param"), ("K", "filter_walrus")]
    inners = [("K", "read"), ("L", "read"), ("K", "iter_read"), ("K", "target"), ("L", "param"), ("L", "param_default"), ("K", "walrus"), ("K", "filter_walrus"), ("L", "late_walrus"), ("L", "inner_param")]
    for mrole in ("none", "assign"):
        for r1 in outer_roles:
            for cap in capturers:
                for mk, mr in mids:
                    for ik, ir in inners:
                        mid = (mk, mr, [(ik, ir, [])])
                        if r1 == "nonlocal_assign" and (mk, mr) == ("K", "target") and ik == "L":
                            # CPython 3.12/3.13 bug (comprehension inlining, PEP 709): when the
                            # iteration variable of a comprehension is declared nonlocal in the
                            # enclosing function and a lambda inside the comprehension captures
                            # it, the variable LEAKS into the enclosing function (3.11 and the
                            # language reference isolate it).  The source itself misbehaves there,
                            # so these programs are not a valid reference.
                            continue
                        if r1 == "nonlocal_assign":
                            # needs an owner one level up
                            yield mrole, [("F", "assign", [("F", r1, [cap, mid])])]
                        else:
                            yield mrole, [("F", r1, [cap, mid])]
                            yield mrole, [("F", r1, [mid, cap])]


def decl_chains():
    """depth-3 chains of functions/classes restricted to the roles that matter for declarations
    (bind, global, nonlocal, read), with at least one global/nonlocal declaration somewhere: the
    full depth-3 universe (435 010 trees) is only sampled, these are enumerated"""
    FI = ["assign", "param", "global_assign", "global_read", "nonlocal_assign", "nonlocal_read", "read", "none"]
    CI = ["assign", "global_assign", "nonlocal_assign", "read", "none"]
    lv = [("F", r) for r in FI] + [("C", r) for r in CI]
    for mrole in ("none", "assign"):
        for a in lv:
            for b in lv:
                for c in lv:
                    roles = (a[1], b[1], c[1])
                    if not any(r.startswith(("global_", "nonlocal_")) for r in roles):
                        continue
                    if c[1] == "none" or (a[1] == "none" and b[1] == "none"):
                        continue
                    yield mrole, [(a[0], a[1], [(b[0], b[1], [(c[0], c[1], [])])])]


def unbound_fallback():
    """a class body (at module level or in a function) whose binding of x may not happen at run
    time, read afterwards by the class body itself and by scopes nested in it"""
    leaves = [None, ("F", "read", []), ("L", "read", []), ("K", "read", []), ("K", "iter_read", []), ("C", "read", [])]
    for mrole in ("none", "assign", "def"):
        for crole in ("cond_assign", "for0", "cond_for"):
            for leaf in leaves:
                ch = [leaf] if leaf else []
                yield mrole, [("C", crole, ch)]
                for frole in ("none", "assign", "param"):
                    yield mrole, [("F", frole, [("C", crole, ch)])]
        # the same at function level captured by an inner function (the variable lives in the helper
        # dict; reading it while unbound raises in both programs, binding it must be seen inside)
        for frole in ("cond_assign", "cond_for"):
            for leaf in leaves[1:]:
                yield mrole, [("F", frole, [leaf])]
