"""C09 family: (risky identifier) x (role of the identifier in the user program) x (converter
feature that introduces helper names).  The identifier is bound in the given role, read inside the
innermost context of the feature and after it."""
import ast
import builtins
import keyword

STATIC_H = ["_", "__", "k", "v", "self", "it", "itertools", "importlib", "type", "setattr", "hasattr", "globals", "locals", "tuple", "list", "slice", "iter", "next", "classmethod", "__import__", "isinstance"]
CONTROL = "zz"

# feature templates: lines with the markers  <USE>  (a statement reading the identifier, placed in
# the innermost context) ; every feature is a list of lines at indentation 0
FEATURES = {
    "while": ["n = 0", "while n < 2:", "    n += 1", "    <USE>", "else:", "    log('welse')"],
    "while_break": ["n = 0", "while n < 5:", "    n += 1", "    if n == b:", "        break", "    <USE>"],
    "for_break": ["for q in [1, 2, 3]:", "    if q == b:", "        break", "    <USE>", "else:", "    log('felse')"],
    "for_plain": ["for q in [1, 2]:", "    <USE>"],
    "class": ["class Kx:", "    ca = 1", "    <USE>", "    def m(self_):", "        return 2", "log('K', Kx.ca, Kx().m())"],
    "class_meta": ["class Mx(type):", "    pass", "class Kx(metaclass=Mx):", "    <USE>", "log('K', type(Kx).__name__ if False else Kx.__name__)"],
    "import": ["import math as mth", "<USE>", "log('i', mth.floor(2.5))"],
    "from_import": ["from os import sep as sp", "<USE>", "log('f', sp)"],
    "destructure": ["p, (q, *r) = 1, (2, 3, 4)", "<USE>", "log('d', p, q, r)"],
    "aug_subscript": ["dd = {'x': 1}", "dd['x'] += a", "ll = [1, 2, 3]", "ll[0:2] += [b]", "<USE>", "log('a', dd, ll)"],
    "chain": ["log('c1')", "<USE>", "log('c2')", "log('c3')"],
    "global_store": ["def gs():", "    global gv", "    gv = a", "    <USE>", "gs()", "log('g', gv)"],
    "nonlocal": ["def nl():", "    t = a", "    def inc():", "        nonlocal t", "        t += 1", "        <USE>", "        return t", "    return inc()", "log('n', nl())"],
    "return_loop": ["def rl():", "    for q in [1, 2, 3]:", "        <USE>", "        if q == 2:", "            return q", "    return -1", "log('r', rl())"],
    "init_subclass": ["class Bs:", "    def __init_subclass__(cls, **kw):", "        cls.tag = 1", "        <USE>", "class Ds(Bs):", "    pass", "log('s', Ds.tag)"],
    # the identifier is read in a HEADER position (condition / iterable / default / decorator /
    # base / return value), i.e. inside the lambdas and comprehension headers the lowering builds
    "while_cond": ["n = 0", "while n < 2 and (<USEX> or True):", "    n += 1", "log('n', n)"],
    "while_cond_break": ["n = 0", "while (<USEX> or True) and n < 5:", "    n += 1", "    if n == 2:", "        break", "else:", "    log('we')", "log('n', n)"],
    "for_iter": ["for q in (<USEX> or [1, 2]):", "    log('q', q)"],
    "for_iter_break": ["for q in (<USEX> or [1, 2, 3]):", "    if q == 2:", "        break", "else:", "    log('fe')"],
    "if_test_in_while": ["n = 0", "while n < 2:", "    n += 1", "    if <USEX> or n == 1:", "        log('t', n)", "    else:", "        log('e', n)"],
    "def_default": ["def dd(p=(<USEX> or 7)):", "    return p", "log('dd', dd())"],
    "decorator_expr": ["def mkdeco(z):", "    def d(f):", "        return f", "    return d", "@mkdeco(<USEX>)", "def df():", "    return 1", "log('df', df())"],
    "class_base_kw": ["class Bk:", "    def __init_subclass__(cls, **kw):", "        cls.kw = sorted(kw)", "class Ck(Bk, opt=(<USEX> or 1)):", "    pass", "log('ck', Ck.kw)"],
    "return_value": ["def rv():", "    for q in [1, 2]:", "        if q == 2:", "            return (<USEX> or q)", "    return 0", "log('rv', rv())"],
    "aug_value": ["acc = [1]", "acc[0] += (<USEX> or 1)", "log('acc', acc)"],
    "destructure_value": ["p, *q = (<USEX> or (1, 2, 3))", "log('pq', p, q)"],
    "import_then_use": ["from math import floor as fl", "log('fl', fl(2.5), <USEX>)"],
    "super_method": ["class Pa:", "    def m(self_):", "        return 1", "class Ch(Pa):", "    def m(self_):", "        <USE>", "        return super().m() + 1", "log('sm', Ch().m())"],
}

ROLES = ["global", "local", "parameter", "loop_target", "function_name", "class_name", "class_attribute", "import_alias", "lambda_param", "comp_target"]


def use_stmt(name, role):
    if role == "function_name":
        return "log('u', %s())" % name
    if role == "class_name":
        return "log('u', %s.v)" % name
    if role == "class_attribute":
        return "log('u', Holder.%s)" % name
    if role == "import_alias":
        return "log('u', %s.floor(2.5))" % name
    if role == "lambda_param":
        return "log('u', (lambda %s: %s + 1)(a))" % (name, name)
    if role == "comp_target":
        return "log('u', [%s * 2 for %s in [a, b]])" % (name, name)
    return "log('u', %s)" % name


# how the identifier is reached from the feature's context: directly, or only from a scope nested
# in it (then the identifier is NOT a symbol of the scope that holds the construct)
VIAS = ["direct", "lambda", "genexp", "def", "lambda_shadow"]
VIA_ROLES = ("global", "global_from_function", "local", "parameter")


def via_expr(name, via):
    if via == "lambda":
        return "(lambda: %s)()" % name
    if via == "lambda_shadow":
        # read in a lambda whose body also holds an inner lambda with a PARAMETER of the same spelling
        return "(lambda: [(lambda %s: %s)(0), %s][1])()" % (name, name, name)
    if via == "genexp":
        return "list(%s for qq in [0])[0]" % name
    if via == "def":
        return "rdx()"
    return name


def program(name, role, feature, via="direct"):
    use = use_stmt(name, role)
    if via != "direct":
        use = "log('u', %s)" % via_expr(name, via)
    body = []
    usex = use.replace("'u'", "'x'")
    for l in FEATURES[feature]:
        if "<USE>" in l and via == "def":
            # the reader function is defined INSIDE the construct (lexically nested in whatever the
            # construct is lowered to), right before it is used
            ind = l[: len(l) - len(l.lstrip())]
            body += [ind + "def rdx():", ind + "    return %s" % name, l.replace("<USE>", use)]
        elif "<USE>" in l:
            body.append(l.replace("<USE>", use))
        elif "<USEX>" in l:
            body.append(l.replace("<USEX>", usex))
        else:
            body.append(l)
    post = use.replace("'u'", "'p'")
    if via == "def":
        if not any("<USE>" in l for l in FEATURES[feature]):
            return "raise SyntaxError"  # expression-only positions cannot hold a def (cell skipped)
        post = "log('p', (lambda: %s)())" % name
    if role == "global":
        lines = ["%s = a" % name] + body + [post]
    elif role == "global_from_function":
        # bound at module level, the construct sits in a function that never binds the identifier
        lines = ["%s = a" % name, "def outer():"] + ["    " + l for l in body] + ["    " + post, "outer()"]
    elif role == "local":
        lines = ["def outer():"] + ["    %s = a" % name] + ["    " + l for l in body] + ["    " + post, "outer()"]
    elif role == "parameter":
        lines = ["def outer(%s):" % name] + ["    " + l for l in body] + ["    " + post, "outer(a)"]
    elif role == "loop_target":
        lines = ["for %s in [a, b]:" % name] + ["    " + l for l in body] + ["    " + post]
    elif role == "function_name":
        lines = ["def %s():" % name, "    return a"] + body + [post]
    elif role == "class_name":
        lines = ["class %s:" % name, "    v = a"] + body + [post]
    elif role == "class_attribute":
        lines = ["class Holder:", "    %s = a" % name, "    def get(self_):", "        return self_.%s" % name] + body + [post, "log('h', Holder().get())"]
    elif role == "import_alias":
        lines = ["import math as %s" % name] + body + [post]
    elif role in ("lambda_param", "comp_target"):
        lines = body + [post]
    else:
        raise ValueError(role)
    return "\n".join(lines) + "\nlog('end')\n"


def legal_identifier(name, role):
    if keyword.iskeyword(name):
        return False
    return True


def cells(names):
    for name in names:
        for role in ROLES + ["global_from_function"]:
            if not legal_identifier(name, role):
                continue
            for feature in FEATURES:
                for via in VIAS if role in VIA_ROLES else VIAS[:1]:
                    if via == "direct" and role == "global_from_function" and False:
                        continue
                    src = program(name, role, feature, via)
                    if src.startswith("raise SyntaxError"):
                        continue
                    try:
                        compile(src, "<s>", "exec")
                    except SyntaxError:
                        continue
                    yield "C09:%s:%s%s:%s" % (name, role, "" if via == "direct" else "~" + via, feature), src


def helper_names(texts_and_sources):
    """identifiers loaded or stored by converter outputs that do not occur in the source"""
    found = set()
    for out, src in texts_and_sources:
        try:
            to = ast.parse(out, mode="eval")
            ts = ast.parse(src)
        except SyntaxError:
            continue
        src_ids = set()
        for n in ast.walk(ts):
            if isinstance(n, ast.Name):
                src_ids.add(n.id)
            elif isinstance(n, ast.arg):
                src_ids.add(n.arg)
            elif isinstance(n, (ast.FunctionDef, ast.ClassDef)):
                src_ids.add(n.name)
            elif isinstance(n, ast.alias):
                src_ids.add((n.asname or n.name).split(".")[0])
        for n in ast.walk(to):
            nid = None
            if isinstance(n, ast.Name):
                nid = n.id
            elif isinstance(n, ast.arg):
                nid = n.arg
            if nid and nid not in src_ids and not nid.startswith("__ol_"):
                found.add(nid)
    return found


def temporaries_distinct(out_ast_text):
    """in one output every __ol_ temporary created at a distinct site has a distinct name: two
    NamedExpr/ comprehension targets with the same __ol_ name are only allowed if it is the very
    same temporary being re-assigned by construction (flags).  Conservative check: the random
    suffixes of all __ol_ names are pairwise distinct."""
    import re

    names = set(re.findall(r"__ol_[a-z_]+?_[a-z]{10}\b", out_ast_text))
    suffixes = [n[-10:] for n in names]
    return len(suffixes) == len(set(suffixes))


# ------------------------------------------------------------------------------------------------
# second sentence of the property: distinct temporaries never share a name.  Every construct that
# introduces temporaries is nested in / followed by every other one (and itself) so that two
# instances of each temporary kind are live at the same time; `@` is replaced by an instance
# suffix, <INNER> by the nested construct.
# ------------------------------------------------------------------------------------------------
NEST = {
    "for_break": ["for q@ in [1, 2, 3]:", "    <INNER>", "    if q@ == b:", "        break", "    log('fa@', q@)", "else:", "    log('fe@')"],
    "for_continue": ["for q@ in [1, 2, 3]:", "    <INNER>", "    if q@ == a:", "        continue", "    log('fc@', q@)"],
    "while_break": ["n@ = 0", "while n@ < 3:", "    n@ += 1", "    <INNER>", "    if n@ == b:", "        break", "    log('wa@', n@)", "else:", "    log('we@')"],
    "while_continue": ["n@ = 0", "while n@ < 3:", "    n@ += 1", "    <INNER>", "    if n@ == a:", "        continue", "    log('wc@', n@)"],
    "for_break_late": ["for q@ in [1, 2, 3]:", "    if q@ == b:", "        break", "    <INNER>", "    log('fl@', q@)", "else:", "    log('fle@')"],
    "return_in_for": ["def rl@():", "    for q@ in [1, 2, 3]:", "        <INNER>", "        if q@ == b:", "            return q@", "        log('ra@', q@)", "    return -1", "log('r@', rl@())"],
    "return_in_while": ["def rw@():", "    n@ = 0", "    while n@ < 3:", "        n@ += 1", "        <INNER>", "        if n@ == a:", "            return n@", "        log('rwa@', n@)", "    log('rwe@')", "log('rw@', rw@())"],
    "class_body": ["class K@:", "    ca@ = a", "    <INNER>", "    cb@ = b", "    def m(self_):", "        return (self_.ca@, self_.cb@)", "log('K@', K@().m(), sorted(n for n in vars(K@) if not n.startswith('__')))"],
    "class_in_method": ["class O@:", "    oa@ = a", "    def m(self_):", "        <INNER>", "        return self_.oa@", "log('O@', O@().m())"],
    "destructure": ["p@, (q@, *r@) = a, (b, 3, 4)", "<INNER>", "(s@, t@), *u@ = [r@, p@, q@]", "log('d@', p@, q@, r@, s@, t@, u@)"],
    "aug_subscript": ["dd@ = {'x': 1}", "ll@ = [1, 2, 3]", "dd@['x'] += a", "<INNER>", "ll@[0:2] += [b]", "log('g@', dd@, ll@)"],
    "from_import": ["from os import sep as sp@, linesep as ls@", "<INNER>", "from os.path import join as jn@", "log('i@', sp@ == jn@('a', 'b')[1], len(ls@))"],
    "import_dotted": ["import os.path as pth@", "<INNER>", "import math as mth@", "log('m@', pth@.basename('a/b'), mth@.floor(2.5))"],
    "nonlocal_cell": ["def nl@():", "    t@ = a", "    def inc@():", "        nonlocal t@", "        t@ += 1", "        <INNER>", "        return t@", "    return inc@() + t@", "log('n@', nl@())"],
    "global_store": ["def gs@():", "    global gv@", "    gv@ = a", "    <INNER>", "    gv@ += b", "gs@()", "log('gv@', gv@)"],
    "chain": ["log('c1@')", "<INNER>", "log('c2@')", "log('c3@')"],
}
# positions that cannot hold every statement kind
_NO_IMPORT_STAR = ()


def _inst(kind, suffix, inner):
    out = []
    for l in NEST[kind]:
        l = l.replace("@", suffix)
        if "<INNER>" in l:
            ind = l[: len(l) - len(l.lstrip())]
            out += [ind + x for x in inner]
        else:
            out.append(l)
    return out


def nested_pairs():
    """(descriptor, source): every construct nested in every construct, every unordered sequence of
    two constructs, and every construct nested in itself three levels deep"""
    kinds = list(NEST)
    leaf = ["log('leaf')"]
    for o in kinds:
        for i in kinds:
            src = "\n".join(_inst(o, "1", _inst(i, "2", leaf))) + "\nlog('end')\n"
            yield "C09:nest:%s>%s" % (o, i), src
    for x in range(len(kinds)):
        for y in range(x, len(kinds)):
            src = "\n".join(_inst(kinds[x], "1", leaf) + _inst(kinds[y], "2", leaf)) + "\nlog('end')\n"
            yield "C09:seq:%s+%s" % (kinds[x], kinds[y]), src
    for o in kinds:
        src = "\n".join(_inst(o, "1", _inst(o, "2", _inst(o, "3", leaf)))) + "\nlog('end')\n"
        yield "C09:nest3:%s" % o, src
    for d, src in same_name_programs():
        yield d, src


# ------------------------------------------------------------------------------------------------
# helpers that belong to a SCOPE (closure-cell store, return holder, loop flags, class loader): two
# scopes on one nesting chain that carry the SAME user name must still get distinct helpers (a
# helper named after the user's function / class name is shared by both: seeded change c09f).
# ------------------------------------------------------------------------------------------------
SAME_LINKS = ("direct", "method", "mid")


def _same_inner(name, write, retloop):
    body = ["def %s(x2):" % name, "    t2 = b", "    def g2():", "        nonlocal t2"]
    if write:
        body += ["        nonlocal t1", "        t1 += 10"]
    body += ["        t2 += x2", "        return t2 + t1"]
    if retloop:
        body += ["    for q2 in [1, 2, 3]:", "        if q2 == a:", "            return ('in', q2, g2())", "        log('i', q2)"]
    body += ["    return g2()"]
    return body


def same_name_programs():
    ind = lambda ls, n=1: ["    " * n + l for l in ls]
    for link in SAME_LINKS:
        for write in (False, True):
            for ro in (False, True):
                for ri in (False, True):
                    name = "step"
                    inner = _same_inner(name, write, ri)
                    if link == "method":
                        inner = ["class Cx:"] + ind([("def %s(self_, x2):" % name)] + inner[1:]) + ["r = Cx().%s(3)" % name]
                        if write:
                            continue  # nonlocal through a class body is legal; keep the read variant only (smaller universe)
                    elif link == "mid":
                        inner = ["def mid():"] + ind(inner + ["return %s(3)" % name]) + ["r = mid()"]
                    else:
                        inner = inner + ["r = %s(3)" % name]
                    outer = ["def %s(x1):" % name, "    t1 = a", "    def g1():", "        nonlocal t1", "        t1 += x1", "        return t1"] + ind(inner)
                    if ro:
                        outer += ["    for q1 in [1, 2, 3]:", "        if q1 == b:", "            return ('out', q1, r, g1())", "        log('o', q1)"]
                    outer += ["    g1()", "    return (t1, r)", "log('s', %s(b))" % name]
                    yield "C09:nest-samename:%s:%s:%s:%s" % (link, "write" if write else "read", "retloop" if ro else "plain", "retloop" if ri else "plain"), "\n".join(outer) + "\nlog('end')\n"
    # classes of one name on one chain (class loader / member store helpers)
    for loop in (False, True):
        body = ["class Kk:", "    ca = a"]
        if loop:
            body += ["    for qa in [1, 2]:", "        ca += qa"]
        body += ["    def m(self_):", "        class Kk:", "            cb = b"]
        if loop:
            body += ["            for qb in [1, 2]:", "                cb += qb"]
        body += ["            def m(self2):", "                return (self2.cb, self_.ca)", "        return Kk().m()", "log('k', Kk().m(), Kk.ca)"]
        yield "C09:nest-samename:class:%s" % ("loop" if loop else "plain"), "\n".join(body) + "\nlog('end')\n"


def suffix_provenance(ol, src, configs):
    """convert `src` with oneliner.utils.unique_id wrapped (harness side, no change to the tree under
    test) and return the random suffixes that occur in the output but were NOT produced by a
    unique_id() call during this conversion (a temporary named once at import/class-definition time
    is shared by every use)"""
    import re
    import sys

    made = []
    patched = []
    orig = None
    for mname, mod in list(sys.modules.items()):
        if mname == "oneliner" or mname.startswith("oneliner."):
            f = getattr(mod, "unique_id", None)
            if callable(f):
                orig = orig or f
                patched.append((mod, f))
    if orig is None:
        return None

    def wrapped(*a, **k):
        r = orig(*a, **k)
        made.append(r)
        return r

    for mod, f in patched:
        mod.unique_id = wrapped
    try:
        out = ol.convert_code_string(src, configs=configs)
    finally:
        for mod, f in patched:
            mod.unique_id = f
    used = set(m[-10:] for m in re.findall(r"__ol_[a-z_]+?_[a-z]{10}\b", out))
    return sorted(used - set(made)), len(made), out
