"""C02 compile-only families: programs outside the supported fragment (shapes) and standard
library modules with unsupported statements stripped."""
import ast
import os
import sysconfig

SHAPES = {
    # inside the fragment but awkward
    "multiline_string": "s = '''a\nb'''\nprint(s)\n",
    "multiline_fstring": "x = 1\ns = f'''a\n{x}\nb'''\nprint(s)\n",
    "string_with_cr": "s = 'a\\rb\\r\\nc'\nprint(s)\n",
    "docstrings": "'''module doc\nline2'''\ndef f():\n    '''fn doc\n    line2'''\n    return 1\nclass K:\n    '''class doc\n    x'''\n    pass\n",
    "bytes_multiline": "b = b'''a\nb'''\n",
    "dotted_import": "import os.path\nprint(os.path.sep)\n",
    "dotted_import_as": "import os.path as p\nprint(p.sep)\n",
    "dotted_import_multi": "import os.path, xml.dom.minidom\n",
    "loop_target_reassigned": "for i in range(3):\n    i = i + 1\n    print(i)\n",
    "loop_target_augassign": "for i in range(3):\n    i += 1\n    print(i)\n",
    "loop_target_walrus_nested": "for i in range(3):\n    print((i := 5))\n",
    "loop_tuple_target_reassigned": "for a, b in [(1, 2)]:\n    a = b\n",
    "walrus_in_while_test": "n = 0\nwhile (n := n + 1) < 3:\n    print(n)\n",
    "walrus_in_for_iter": "for i in (r := range(3)):\n    print(i, r)\n",
    "walrus_in_if_in_loop": "for i in range(3):\n    if (k := i * 2) > 2:\n        print(k)\n",
    "walrus_in_comprehension_cond": "print([y for x in range(5) if (y := x * 2) > 2])\n",
    "underscore_user_var_in_while": "_ = 5\nwhile _ > 3:\n    _ -= 1\nprint(_)\n",
    "underscore_loop_var": "for _ in range(2):\n    pass\nprint(_)\n",
    "nested_fstrings": "x = 1\nprint(f'{f\"{x!r:>{3}}\"}')\n",
    "fstring_field_starts_with_brace": "k = 1\nx = 5\nprint(f'{ {1: x}[k] } { {x} | {k} } { {n: n for n in range(3)}.get(2)!r:>4} { {0: 9}[0] if x else k }')\n",
    "fstring_quotes": "d = {'a': 1}\nprint(f\"{d['a']}\" f'{d[\"a\"]}')\n",
    "lambda_default_walrus": "f = lambda a=(q := 3): a\nprint(f(), q)\n",
    "star_expr_stmt": "a = [1, 2]\nprint(*a, *a)\nb = *a, 3\n",
    "for_assign_in_else": "for i in range(2):\n    pass\nelse:\n    i = 9\n",
    "for_in_for_same_target": "for i in range(2):\n    for i in range(3):\n        pass\n",
    "while_in_for_assign_outer_target": "for i in range(2):\n    while i < 3:\n        i += 1\n",
    "def_named_like_loop_target": "for f in range(2):\n    def f():\n        return 1\n",
    "class_named_like_loop_target": "for K in range(2):\n    class K:\n        pass\n",
    "import_as_loop_target": "for m in range(1):\n    import math as m\n",
    "global_loop_target_in_function": "def f():\n    global g\n    for g in range(3):\n        pass\nf()\nprint(g)\n",
    "nonlocal_loop_target": "def f():\n    t = 0\n    def g():\n        nonlocal t\n        for t in range(3):\n            pass\n    g()\n    return t\nprint(f())\n",
    "attribute_loop_target": "class O: pass\no = O()\nfor o.x in range(3):\n    pass\nprint(o.x)\n",
    "subscript_loop_target": "L = [0]\nfor L[0] in range(3):\n    pass\nprint(L)\n",
    "starred_loop_target": "for a, *b in [(1, 2, 3)]:\n    print(a, b)\n",
    "empty_module": "",
    "only_pass": "pass\n",
    "only_docstring": "'''doc'''\n",
    "annotation_only": "x: int\n",
    "semicolons": "a = 1; b = 2; print(a, b)\n",
    "line_continuation": "a = 1 + \\\n    2\nprint(a)\n",
    "unicode_identifiers": "ñ = 1\n变量 = 2\nprint(ñ, 变量)\n",
    "non_bmp_string": "s = '\\U0001f600\\ud800'\nprint(len(s))\n",
    "ellipsis_body": "def f(): ...\nclass K: ...\n",
    "return_in_loop_else": "def f():\n    for i in range(3):\n        pass\n    else:\n        return i\nprint(f())\n",
    "deep_nesting": "def f():\n" + "".join("    " * (k + 1) + "if True:\n" for k in range(12)) + "    " * 13 + "return 1\nprint(f())\n",
    "comprehension_walrus_leak": "print([ (z := v) for v in range(3)], z)\n",
    "class_in_loop_with_break": "for i in range(3):\n    class K:\n        v = i\n    if i == 1:\n        break\n",
    "lambda_in_default_in_loop": "fs = []\nfor i in range(3):\n    def f(a=lambda: i):\n        return a()\n    fs.append(f)\nprint([f() for f in fs])\n",
    "conditional_import": "if True:\n    import math\nelse:\n    import cmath as math\nprint(math.floor(1.5))\n",
    "from_import_dotted": "from os.path import join, sep as s\nprint(join('a', 'b'), s)\n",
    "from_future": "from __future__ import annotations\nx: int = 1\n",
    "matmul_aug": "class M:\n    def __imatmul__(s, o):\n        return s\nm = M()\nm @= m\n",
    "chained_comparison_walrus": "print(1 < (y := 2) < 3, y)\n",
    "dict_unpack_call": "def f(**k):\n    return k\nprint(f(**{'a': 1}, b=2))\n",
    "global_at_module": "global gx\ngx = 1\nprint(gx)\n",
    "try_unsupported": "try:\n    pass\nexcept Exception:\n    pass\n",
    "with_unsupported": "with open('x') as f:\n    pass\n",
    "yield_function": "def g():\n    yield 1\nprint(list(g()))\n",
    "async_function": "async def g():\n    return 1\n",
    "match_statement": "match 1:\n    case 1:\n        pass\n",
    "star_import": "from os import *\n",
    "del_statement": "a = 1\ndel a\n",
    "assert_statement": "assert True\n",
    "raise_statement": "raise ValueError\n",
    "type_alias": "type T = int\n",
}

UNSUPPORTED = (ast.Try, ast.Raise, ast.With, ast.Assert, ast.Delete, ast.AsyncFunctionDef, ast.AsyncFor, ast.AsyncWith, ast.Match)
if hasattr(ast, "TryStar"):
    UNSUPPORTED = UNSUPPORTED + (ast.TryStar,)
if hasattr(ast, "TypeAlias"):
    UNSUPPORTED = UNSUPPORTED + (ast.TypeAlias,)


class Strip(ast.NodeTransformer):
    """remove statements the README lists as unsupported (and functions containing yield/await,
    star imports) so that what remains is inside the documented statement fragment"""

    def generic_visit(self, node):
        for field, old in ast.iter_fields(node):
            if isinstance(old, list) and old and isinstance(old[0], ast.stmt):
                new = []
                for st in old:
                    if isinstance(st, UNSUPPORTED):
                        continue
                    if isinstance(st, ast.ImportFrom) and any(a.name == "*" for a in st.names):
                        continue
                    if isinstance(st, (ast.FunctionDef, ast.ClassDef, ast.Expr, ast.Assign, ast.AugAssign, ast.AnnAssign, ast.Return, ast.If, ast.While, ast.For)) and has_yield_or_await(st):
                        continue
                    st = self.visit(st)
                    if st is not None:
                        new.append(st)
                if not new and field == "body":
                    new = [ast.Pass()]
                setattr(node, field, new)
            elif isinstance(old, ast.AST):
                setattr(node, field, self.visit(old))
        return node


def has_yield_or_await(st):
    for n in ast.walk(st):
        if isinstance(n, (ast.Yield, ast.YieldFrom, ast.Await)):
            return True
        if isinstance(n, (ast.ListComp, ast.SetComp, ast.DictComp, ast.GeneratorExp)) and any(g.is_async for g in n.generators):
            return True
    return False


def stdlib_modules(limit, max_bytes=60000):
    root = sysconfig.get_paths()["stdlib"]
    out = []
    for fn in sorted(f for f in os.listdir(root) if f.endswith(".py")):
        p = os.path.join(root, fn)
        if os.path.getsize(p) > max_bytes:
            continue
        try:
            with open(p, encoding="utf8") as f:
                tree = ast.parse(f.read())
            tree = Strip().visit(tree)
            ast.fix_missing_locations(tree)
            src = ast.unparse(tree) + "\n"
            compile(src, fn, "exec")
        except Exception:
            continue
        out.append(("C02:stdlib:%s" % fn, src))
        if len(out) >= limit:
            break
    return out


# ------------------------------------------------------------------------------------------------
# slot products: every position of a statement that holds an expression (or a subscript index) x
# every expression kind with a placement restriction in Python's grammar/compiler (assignment
# expressions, lambdas containing them, comprehensions, slices, starred items, multi-line strings),
# at module / function / class level.  The converter moves expressions into comprehension
# iterables, lambda bodies, call arguments and __setitem__/slice(...) calls: each such move is
# legal only for some expression kinds.
# ------------------------------------------------------------------------------------------------
EXPR_SLOTS = {
    "call_arg": "f(X)\n",
    "kwarg_value": "f(k=X)\n",
    "star_arg": "f(*X)\n",
    "dstar_arg": "f(**X)\n",
    "lambda_body": "g = lambda: X\n",
    "comp_elt": "l = [X for i in r]\n",
    "comp_cond": "l = [i for i in r if X]\n",
    "comp_iter_inner": "l = [i for j in r for i in (lambda: X)()]\n",
    "default": "def h(p=X):\n    pass\n",
    "kwdefault": "def h(*, p=X):\n    pass\n",
    "decorator": "@X\ndef h():\n    pass\n",
    "class_decorator": "@X\nclass A:\n    pass\n",
    "base": "class A(X):\n    pass\n",
    "class_kw": "class A(k=X):\n    pass\n",
    "fstring_field": "s = f'{X}'\n",
    "fstring_spec": "s = f'{a:{X}}'\n",
    "assign_value": "x = X\n",
    "chained_assign_value": "x = y = X\n",
    "destructure_value": "x, *y = X\n",
    "ann_value": "x: int = X\n",
    "aug_value": "x += X\n",
    "aug_sub_value": "d[0] += X\n",
    "aug_attr_value": "o.a += X\n",
    "expr_stmt": "X\n",
    "if_test": "if X:\n    pass\n",
    "elif_test": "if a:\n    pass\nelif X:\n    x = 1\nelse:\n    x = 2\n",
    "if_test_in_loop": "for i in r:\n    if X:\n        break\n    x = 1\n",
    "while_test": "while X:\n    x = 1\n",
    "while_test_break": "while X:\n    if a:\n        break\n    x = 1\nelse:\n    x = 2\n",
    "for_iter": "for i in X:\n    pass\n",
    "for_iter_break": "for i in X:\n    if a:\n        break\n    x = 1\nelse:\n    x = 2\n",
    "for_iter_nested": "for j in r:\n    for i in X:\n        if a:\n            continue\n        x = 1\n",
    "for_body_value": "for i in r:\n    x = X\n",
    "while_body_value": "while a:\n    x = X\n    if b:\n        break\n",
    "subscript_target_index": "d[X] = 1\n",
    "subscript_target_object": "(X)[0] = 1\n",
    "attribute_target_object": "(X).a = 1\n",
    "slice_target_lower": "d[X:2] = []\n",
    "slice_target_step": "d[::X] = []\n",
    "tuple_target_index": "d[X], e = 1, 2\n",
    "chained_target_index": "x = d[X] = 1\n",
    "aug_target_index": "d[X] += 1\n",
    "aug_target_slice": "d[X:] += []\n",
    "aug_target_object": "(X).a += 1\n",
    "for_target_index": "for d[X] in r:\n    pass\n",
    "for_target_object": "for (X).a in r:\n    pass\n",
    "dict_value": "x = {1: X}\n",
    "dict_key": "x = {X: 1}\n",
    "set_display": "x = {X, 1}\n",
    "list_display": "x = [X, 1]\n",
    "walrus_value": "(w := X)\n",
    "ifexp_test": "v = b if X else c\n",
    "ifexp_body": "v = X if a else c\n",
    "boolop": "v = a and X or b\n",
    "compare": "v = a < X < b\n",
    "subscript_load": "v = d[X]\n",
    "slice_load": "v = d[X:2]\n",
    "attribute_load": "v = (X).real\n",
    "nested_lambda_default": "g = lambda p=lambda: X: p\n",
    "return_value": "def h():\n    return X\n",
    "return_value_in_loop": "def h():\n    for i in r:\n        if a:\n            return X\n        x = 1\n    return 0\n",
    "method_default": "class A:\n    def m(self, p=X):\n        pass\n",
    "method_body": "class A:\n    def m(self):\n        x = X\n        return x\n",
    "global_store_value": "def h():\n    global gg\n    gg = X\n",
    "nonlocal_store_value": "def h():\n    t = 0\n    def k():\n        nonlocal t\n        t = X\n    k()\n",
    "import_then": "import os.path\nx = X\n",
}
EXPR_FILLERS = {
    "name": "a",
    "walrus": "(t := a)",
    "walrus_in_call": "f(t := a)",
    "lambda_walrus_body": "(lambda v: (t := v) + t)(a)",
    "lambda_walrus_default": "(lambda v=(t := a): v)()",
    "lambda_plain": "lambda: a",
    "comp_walrus_cond": "[q for q in r if (t := q)]",
    "comp_lambda_walrus": "[(lambda: (t := q))() for q in r]",
    "comp_nested": "[[p for p in q] for q in r]",
    "genexp": "(q for q in r)",
    "dictcomp": "{q: q for q in r}",
    "fstring_nested": "f'{a!r:>{b}}'",
    "multiline_str": "'''x\ny'''",
    "multiline_fstr": "f'''{a}\n'''",
    "ifexp": "a if b else c",
    "ext_slice_load": "a[1:2, ::3]",
    "slice_walrus": "a[(t := 1):]",
    "ellipsis_sub": "a[..., 0]",
    "dict_unpack": "{**a, 'k': 1}",
    "star_list": "[*a, *b]",
    "star_tuple": "(*a, b)",
    "neg_const": "-1",
    "attr_chain": "a.b.c",
    "boolop_walrus": "a and (t := b)",
    "tuple": "(a, b)",
    "compare_walrus": "a < (t := b) < c",
    "call_star": "f(*a, **b)",
    "not_in": "a not in b",
    "await_free_yield_free_paren_lambda": "(lambda: (yield))",
    "string_join": "'a' 'b'",
    "bytes": "b'\\n'",
    "complex": "1j",
    "matmul": "a @ b",
    "power_neg": "(-a) ** -b",
}
INDEX_SLOTS = {
    "store": "d[I] = 1\n",
    "store_attr_obj": "o.a[I] = 1\n",
    "store_call_obj": "f()[I] = 1\n",
    "aug": "d[I] += 1\n",
    "aug_call_obj": "f()[I] += 1\n",
    "for_target": "for d[I] in r:\n    pass\n",
    "for_target_break": "for d[I] in r:\n    if a:\n        break\n    x = 1\n",
    "tuple_target": "d[I], e = 1, 2\n",
    "starred_target": "*d[I], e = 1, 2\n",
    "chained": "x = d[I] = 1\n",
    "ann": "d[I]: int = 1\n",
    "load": "v = d[I]\n",
    "nested_store": "d[I][I] = 1\n",
    "walrus_value_index": "(w := d[I])\n",
}
INDEX_FILLERS = {
    "const": "0",
    "slice": "1:2",
    "slice_step": "::2",
    "slice_names": "a:b:c",
    "slice_walrus": "1:(t := 2)",
    "ext_slice": "1:2, 0",
    "ext_slice2": "1:2, ::3",
    "ellipsis_slice": "..., 1:",
    "tuple": "0, 1",
    "walrus": "(t := 0)",
    "starred": "*a, 0",
    "starred_slice": "*a, 1:2",
    "lambda": "lambda: 0",
    "neg": "-1",
    "call": "f(0)",
    "nested_slice_in_tuple": "(1, 2), 3:4",
}
SLOT_PLACEMENTS = ("module", "function", "class")


def _place(src, pl):
    if pl == "module":
        return src
    ind = "".join("    " + l + "\n" for l in src.splitlines())
    if pl == "function":
        return "def outer():\n" + ind
    return "class Outer:\n" + ind


def slot_products():
    """(descriptor, source) for every slot x filler x placement that CPython itself compiles"""
    for pl in SLOT_PLACEMENTS:
        for sn, s in EXPR_SLOTS.items():
            for fn, f in EXPR_FILLERS.items():
                src = _place(s.replace("X", f), pl)
                yield "C02:slot:%s:%s:%s" % (pl, sn, fn), src
        for sn, s in INDEX_SLOTS.items():
            for fn, f in INDEX_FILLERS.items():
                src = _place(s.replace("I", f), pl)
                yield "C02:index:%s:%s:%s" % (pl, sn, fn), src


# ------------------------------------------------------------------------------------------------
# identifier spellings: Python NFKC-normalises identifiers AFTER tokenising, so a name written with
# compatibility characters can become a KEYWORD / constant name in the tree (`\U0001d422\U0001d427` -> Name('in')),
# which no unparser can write back; other spellings are merely non-ASCII.  Every position that
# holds an identifier x every spelling x placement (seeded change c02f: the result of the fallback
# unparser was returned unchecked).
# ------------------------------------------------------------------------------------------------
def _bold(word):
    return "".join(chr(0x1D41A + ord(c) - 97) if "a" <= c <= "z" else chr(0x1D400 + ord(c) - 65) if "A" <= c <= "Z" else c for c in word)


IDENT_SPELLINGS = {
    "kw_in": _bold("in"), "kw_if": _bold("if"), "kw_del": _bold("del"), "kw_is": _bold("is"), "kw_or": _bold("or"),
    "kw_lambda": _bold("lambda"), "kw_not": _bold("not"), "kw_while": _bold("while"), "kw_class": _bold("class"),
    "kw_partial": "i" + _bold("f"), "soft_match": _bold("match"), "soft_type": _bold("type"),
    "plain_bold": _bold("zq"), "fullwidth": "\uff41\uff42", "ligature": "\ufb01x", "micro": "\u00b5", "kelvin": "\u212a", "greek": "\u03bb\u03b1",
    "ascii": "zq",
    # (not included: spellings of None / True / False / __debug__ -- Name('None') is re-read as Constant(None), the same
    # value; the tree-equality side oracle of this check would flag a difference the property does not speak about)
}
IDENT_SLOTS = {
    "assign": "N = 1\nprint(N)\n",
    "attr_load": "v = a.N\n",
    "attr_store": "a.N = 1\n",
    "param": "def h(N=1):\n    return N\n",
    "kwonly_param": "def h(*, N=1):\n    return N\n",
    "vararg": "def h(*N):\n    return N\n",
    "lambda_param": "g = lambda N: N\n",
    "call_kw": "f(N=1)\n",
    "class_kw": "class A(N=1):\n    pass\n",
    "def_name": "def N():\n    pass\n",
    "class_name": "class N:\n    pass\n",
    "import_as": "import os as N\n",
    "from_import_as": "from os import sep as N\n",
    "import_name": "import N\n",
    "from_module": "from N import x\n",
    "from_name": "from os import N\n",
    "for_target": "for N in r:\n    pass\n",
    "for_target_break": "for N in r:\n    if a:\n        break\n",
    "comp_target": "l = [N for N in r]\n",
    "walrus": "(N := 1)\n",
    "global_decl": "def h():\n    global N\n    N = 1\n",
    "nonlocal_decl": "def h():\n    N = 0\n    def k():\n        nonlocal N\n        N = 1\n    k()\n",
    "captured": "def h():\n    N = 0\n    def k():\n        return N\n    return k()\n",
    "aug": "N += 1\n",
    "destructure": "N, *b = r\n",
    "method_name": "class A:\n    def N(self):\n        return 1\n",
    "class_attr": "class A:\n    N = 2\n",
    "fstring_field": "s = f'{N}'\n",
    "load_in_loop": "while a:\n    x = N\n    break\n",
}


def ident_products():
    for pl in SLOT_PLACEMENTS:
        for sn, s in IDENT_SLOTS.items():
            for kn, k in IDENT_SPELLINGS.items():
                yield "C02:ident:%s:%s:%s" % (pl, sn, kn), _place(s.replace("N", k), pl)


# scripts that PARSE but that CPython refuses to COMPILE: conversion must either refuse them or
# still return one well-formed expression (it used to return text that is not an expression)
COMPILE_REFUSED = {
    "return_star": "def f():\n    return *a\n",
    "for_iter_star": "for x in *a:\n    pass\n",
    "assign_debug": "__debug__ = 1\n",
    "walrus_debug": "(__debug__ := 1)\n",
    "aug_debug": "__debug__ += 1\n",
    "ann_debug": "__debug__: int = 1\n",
    "tuple_debug": "x, __debug__ = 1, 2\n",
    "for_debug": "for __debug__ in x:\n    pass\n",
    "param_debug": "def f(__debug__):\n    pass\n",
    "kwarg_debug": "f(__debug__=1)\n",
    "import_debug": "import __debug__\n",
    "import_as_debug": "import a as __debug__\n",
    "class_debug": "class __debug__:\n    pass\n",
    "def_debug": "def __debug__():\n    pass\n",
    "attr_debug": "a.__debug__ = 1\n",
    "lambda_debug": "f = lambda __debug__: 1\n",
    "comp_debug": "x = [1 for __debug__ in y]\n",
    "repeated_keyword": "f(a=1, a=2)\n",
    "future_late": "x = 1\nfrom __future__ import annotations\n",
    "future_in_def": "def f():\n    from __future__ import division\n",
    "comp_bare_star_target": "x = [1 for *a in y]\n",
    "star_stmt_target": "*a = x\n",
    "for_bare_star_target": "for *a in x:\n    pass\n",
    "nonlocal_module": "nonlocal x\n",
    "nonlocal_unbound": "def f():\n    nonlocal x\n",
    "global_after_use": "def f():\n    print(x)\n    global x\n",
    "global_after_assign": "def f():\n    x = 1\n    global x\n",
    "global_and_nonlocal": "def f():\n    x = 1\n    def g():\n        global x\n        nonlocal x\n",
    "param_global": "def f(x):\n    global x\n",
    "duplicate_param": "def f(a, a):\n    pass\n",
    "yield_in_class": "class A:\n    yield 1\n",
    "return_in_class_in_def": "def f():\n    class A:\n        return 1\n",
    "walrus_rebinds_comp_var": "x = [(i := 1) for i in y]\n",
    "walrus_in_class_comp": "class A:\n    x = [(j := i) for i in y]\n",
    "walrus_in_comp_iterable": "x = [i for i in (j := y)]\n",
    "await_outside_async": "def f():\n    await x\n",
    "async_comp_outside_async": "def f():\n    return [i async for i in y]\n",
    "break_in_finally_free": "while c:\n    def f():\n        break\n",
    "del_call": "del f()\n",
    "assign_to_call": "f() = 1\n",
    "assign_to_literal": "1 = x\n",
    "aug_to_tuple": "(a, b) += 1\n",
    "ann_to_tuple": "(a, b): int = 1, 2\n",
    "starred_in_index_assign": "x[*a] = 1\n" if False else "x = *a\n",
    "dict_unpack_in_call_order": "f(**a, *b)\n",
    "positional_after_keyword": "f(a=1, 2)\n",
    "none_assign": "None = 1\n",
    "lambda_default_order": "f = lambda a=1, b: 0\n",
}


def compile_refused():
    """(descriptor, source) of those entries that ast.parse accepts and compile() refuses on this
    interpreter (the others are not part of the obligation here)"""
    import ast

    for k, src in COMPILE_REFUSED.items():
        try:
            ast.parse(src)
        except SyntaxError:
            continue
        try:
            compile(src, "<s>", "exec")
            continue
        except SyntaxError:
            pass
        yield "C02:compile-refused:" + k, src
