"""C02 compile-only families: programs outside the supported fragment (shapes) and standard
library modules with unsupported statements stripped."""
import ast
import os
import sysconfig

SHAPES = {
    # inside the fragment but awkward
    "multiline_string": "s = '''a\nb'''\nprint(s)\n",
    "multiline_fstring": "x = 1\ns = f'''a\n{x}\nb'''\nprint(s)\n",
    "string_with_cr": "s = 'a\\rb\\r\\nc'\nprint(s)\n",
    "docstrings": "'''module doc\nline2'''\ndef f():\n    '''fn doc\n    line2'''\n    return 1\nclass K:\n    '''class doc\n    x'''\n    pass\n",
    "bytes_multiline": "b = b'''a\nb'''\n",
    "dotted_import": "import os.path\nprint(os.path.sep)\n",
    "dotted_import_as": "import os.path as p\nprint(p.sep)\n",
    "dotted_import_multi": "import os.path, xml.dom.minidom\n",
    "loop_target_reassigned": "for i in range(3):\n    i = i + 1\n    print(i)\n",
    "loop_target_augassign": "for i in range(3):\n    i += 1\n    print(i)\n",
    "loop_target_walrus_nested": "for i in range(3):\n    print((i := 5))\n",
    "loop_tuple_target_reassigned": "for a, b in [(1, 2)]:\n    a = b\n",
    "walrus_in_while_test": "n = 0\nwhile (n := n + 1) < 3:\n    print(n)\n",
    "walrus_in_for_iter": "for i in (r := range(3)):\n    print(i, r)\n",
    "walrus_in_if_in_loop": "for i in range(3):\n    if (k := i * 2) > 2:\n        print(k)\n",
    "walrus_in_comprehension_cond": "print([y for x in range(5) if (y := x * 2) > 2])\n",
    "underscore_user_var_in_while": "_ = 5\nwhile _ > 3:\n    _ -= 1\nprint(_)\n",
    "underscore_loop_var": "for _ in range(2):\n    pass\nprint(_)\n",
    "nested_fstrings": "x = 1\nprint(f'{f\"{x!r:>{3}}\"}')\n",
    "fstring_field_starts_with_brace": "k = 1\nx = 5\nprint(f'{ {1: x}[k] } { {x} | {k} } { {n: n for n in range(3)}.get(2)!r:>4} { {0: 9}[0] if x else k }')\n",
    "fstring_quotes": "d = {'a': 1}\nprint(f\"{d['a']}\" f'{d[\"a\"]}')\n",
    "lambda_default_walrus": "f = lambda a=(q := 3): a\nprint(f(), q)\n",
    "star_expr_stmt": "a = [1, 2]\nprint(*a, *a)\nb = *a, 3\n",
    "for_assign_in_else": "for i in range(2):\n    pass\nelse:\n    i = 9\n",
    "for_in_for_same_target": "for i in range(2):\n    for i in range(3):\n        pass\n",
    "while_in_for_assign_outer_target": "for i in range(2):\n    while i < 3:\n        i += 1\n",
    "def_named_like_loop_target": "for f in range(2):\n    def f():\n        return 1\n",
    "class_named_like_loop_target": "for K in range(2):\n    class K:\n        pass\n",
    "import_as_loop_target": "for m in range(1):\n    import math as m\n",
    "global_loop_target_in_function": "def f():\n    global g\n    for g in range(3):\n        pass\nf()\nprint(g)\n",
    "nonlocal_loop_target": "def f():\n    t = 0\n    def g():\n        nonlocal t\n        for t in range(3):\n            pass\n    g()\n    return t\nprint(f())\n",
    "attribute_loop_target": "class O: pass\no = O()\nfor o.x in range(3):\n    pass\nprint(o.x)\n",
    "subscript_loop_target": "L = [0]\nfor L[0] in range(3):\n    pass\nprint(L)\n",
    "starred_loop_target": "for a, *b in [(1, 2, 3)]:\n    print(a, b)\n",
    "empty_module": "",
    "only_pass": "pass\n",
    "only_docstring": "'''doc'''\n",
    "annotation_only": "x: int\n",
    "semicolons": "a = 1; b = 2; print(a, b)\n",
    "line_continuation": "a = 1 + \\\n    2\nprint(a)\n",
    "unicode_identifiers": "ñ = 1\n变量 = 2\nprint(ñ, 变量)\n",
    "non_bmp_string": "s = '\\U0001f600\\ud800'\nprint(len(s))\n",
    "ellipsis_body": "def f(): ...\nclass K: ...\n",
    "return_in_loop_else": "def f():\n    for i in range(3):\n        pass\n    else:\n        return i\nprint(f())\n",
    "deep_nesting": "def f():\n" + "".join("    " * (k + 1) + "if True:\n" for k in range(12)) + "    " * 13 + "return 1\nprint(f())\n",
    "comprehension_walrus_leak": "print([ (z := v) for v in range(3)], z)\n",
    "class_in_loop_with_break": "for i in range(3):\n    class K:\n        v = i\n    if i == 1:\n        break\n",
    "lambda_in_default_in_loop": "fs = []\nfor i in range(3):\n    def f(a=lambda: i):\n        return a()\n    fs.append(f)\nprint([f() for f in fs])\n",
    "conditional_import": "if True:\n    import math\nelse:\n    import cmath as math\nprint(math.floor(1.5))\n",
    "from_import_dotted": "from os.path import join, sep as s\nprint(join('a', 'b'), s)\n",
    "from_future": "from __future__ import annotations\nx: int = 1\n",
    "matmul_aug": "class M:\n    def __imatmul__(s, o):\n        return s\nm = M()\nm @= m\n",
    "chained_comparison_walrus": "print(1 < (y := 2) < 3, y)\n",
    "dict_unpack_call": "def f(**k):\n    return k\nprint(f(**{'a': 1}, b=2))\n",
    "global_at_module": "global gx\ngx = 1\nprint(gx)\n",
    "try_unsupported": "try:\n    pass\nexcept Exception:\n    pass\n",
    "with_unsupported": "with open('x') as f:\n    pass\n",
    "yield_function": "def g():\n    yield 1\nprint(list(g()))\n",
    "async_function": "async def g():\n    return 1\n",
    "match_statement": "match 1:\n    case 1:\n        pass\n",
    "star_import": "from os import *\n",
    "del_statement": "a = 1\ndel a\n",
    "assert_statement": "assert True\n",
    "raise_statement": "raise ValueError\n",
    "type_alias": "type T = int\n",
}

UNSUPPORTED = (ast.Try, ast.Raise, ast.With, ast.Assert, ast.Delete, ast.AsyncFunctionDef, ast.AsyncFor, ast.AsyncWith, ast.Match)
if hasattr(ast, "TryStar"):
    UNSUPPORTED = UNSUPPORTED + (ast.TryStar,)
if hasattr(ast, "TypeAlias"):
    UNSUPPORTED = UNSUPPORTED + (ast.TypeAlias,)


class Strip(ast.NodeTransformer):
    """remove statements the README lists as unsupported (and functions containing yield/await,
    star imports) so that what remains is inside the documented statement fragment"""

    def generic_visit(self, node):
        for field, old in ast.iter_fields(node):
            if isinstance(old, list) and old and isinstance(old[0], ast.stmt):
                new = []
                for st in old:
                    if isinstance(st, UNSUPPORTED):
                        continue
                    if isinstance(st, ast.ImportFrom) and any(a.name == "*" for a in st.names):
                        continue
                    if isinstance(st, (ast.FunctionDef, ast.ClassDef, ast.Expr, ast.Assign, ast.AugAssign, ast.AnnAssign, ast.Return, ast.If, ast.While, ast.For)) and has_yield_or_await(st):
                        continue
                    st = self.visit(st)
                    if st is not None:
                        new.append(st)
                if not new and field == "body":
                    new = [ast.Pass()]
                setattr(node, field, new)
            elif isinstance(old, ast.AST):
                setattr(node, field, self.visit(old))
        return node


def has_yield_or_await(st):
    for n in ast.walk(st):
        if isinstance(n, (ast.Yield, ast.YieldFrom, ast.Await)):
            return True
        if isinstance(n, (ast.ListComp, ast.SetComp, ast.DictComp, ast.GeneratorExp)) and any(g.is_async for g in n.generators):
            return True
    return False


def stdlib_modules(limit, max_bytes=60000):
    root = sysconfig.get_paths()["stdlib"]
    out = []
    for fn in sorted(f for f in os.listdir(root) if f.endswith(".py")):
        p = os.path.join(root, fn)
        if os.path.getsize(p) > max_bytes:
            continue
        try:
            with open(p, encoding="utf8") as f:
                tree = ast.parse(f.read())
            tree = Strip().visit(tree)
            ast.fix_missing_locations(tree)
            src = ast.unparse(tree) + "\n"
            compile(src, fn, "exec")
        except Exception:
            continue
        out.append(("C02:stdlib:%s" % fn, src))
        if len(out) >= limit:
            break
    return out
