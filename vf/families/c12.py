"""C12 family: class skeletons = header (bases x metaclass x keyword x decorators x placement)
x members.  Symbolic ints a, b flow through attribute values and method arguments."""
import itertools

PRELUDE = """class A:
    ca0 = 1
    def m(self, v):
        return ('A.m', v)
    @classmethod
    def cm(cls, v):
        return ('A.cm', cls.__name__, v)
class B(A):
    def m(self, v):
        return ('B.m', super().m(v))
class C(A):
    def m(self, v):
        return ('C.m', super().m(v))
class M(type):
    def __new__(mcs, name, bases, ns, **kw):
        cls = super().__new__(mcs, name, bases, ns)
        cls.meta_kw = sorted(kw.items())
        return cls
    def __init__(cls, name, bases, ns, **kw):
        super().__init__(name, bases, ns)
class IS:
    def __init_subclass__(cls, tag=None, **kw):
        super().__init_subclass__(**kw)
        cls.tag = tag
def d1(c):
    log('d1', c.__name__)
    c.d1 = True
    return c
def d2(c):
    log('d2', c.__name__)
    c.d2 = getattr(c, 'd1', False)
    return c
def drepl(c):
    class R(c):
        repl = True
    return R
def mdeco(f):
    def w(*x, **k):
        return ('mdeco', f(*x, **k))
    return w
def hookdeco(f):
    def w(*x, **k):
        log('hookdeco', len(x))
        return f(*x, **k)
    return w
G = 50
"""

BASES = {"none": "", "one": "A", "chain": "B", "diamond": "B, C", "is": "IS"}
DECOS = {"0": [], "1": ["@d1"], "2": ["@d2", "@d1"], "repl": ["@drepl"]}

# member kind -> (body lines, observation expressions using K / inst / sub, needs)
MEMBERS = {
    "attr": (["ca = a"], ["K.ca", "K().ca"]),
    "computed": (["cb = a", "cc = cb + b"], ["K.cb", "K.cc"]),
    "method": (["def me(self, v):", "    return (v, a)"], ["K().me(b)", "Sub().me(b)"]),
    "init": (["def __init__(self, v=b):", "    self.iv = v"], ["K().iv", "K(a).iv", "Sub(3).iv"]),
    "static": (["@staticmethod", "def sm(v):", "    return v + a"], ["K.sm(b)", "K().sm(b)", "Sub.sm(1)"]),
    "classm": (["@classmethod", "def cme(cls, v):", "    return (cls.__name__, v)"], ["K.cme(a)", "Sub.cme(b)", "Sub().cme(1)"]),
    "prop": (["def __init__(self, *x, **k):", "    self._p = a", "@property", "def p(self):", "    return self._p", "@p.setter", "def p(self, v):", "    self._p = v + 1"], ["K().p", "setp(K(), b)"]),
    "nested": (["class N:", "    nv = a", "    def nm(self):", "        return b"], ["K.N.nv", "K.N().nm()", "K.N.__name__"]),
    "lambda0": (["lam = lambda: G + a"], ["K.lam()"]),
    "lambda1": (["lam1 = lambda self, v=b: (v, a)"], ["K().lam1()", "K().lam1(7)"]),
    "comp": (["comp = [i * a for i in range(3)]", "comp2 = {i: G for i in range(2)}"], ["K.comp", "K.comp2"]),
    "comp_classvar": (["n = 3", "comp3 = [i for i in range(n)]"], ["K.comp3"]),
    "body_if": (["if a > b:", "    z = 1", "elif a == b:", "    z = 2", "else:", "    z = 3"], ["K.z"]),
    "body_while": (["cnt = 0", "while cnt < 2:", "    cnt += 1", "else:", "    done = cnt"], ["K.cnt", "K.done"]),
    "body_for": (["acc = []", "for i in range(2):", "    acc.append(i + a)"], ["K.acc"]),
    "super0": (["def m(self, v):", "    return ('K.m', super().m(v))"], ["K().m(a)", "Sub().m(b)"]),
    "super2": (["def m(self, v):", "    return ('K.m2', super(K, self).m(v))"], ["K().m(a)", "Sub().m(b)"]),
    "super_cm": (["@classmethod", "def cm(cls, v):", "    return ('K.cm', super().cm(v))"], ["K.cm(a)", "Sub.cm(b)"]),
    "super_in_while_condition": (["def m(self, v):", "    n = 0", "    while super().m(v) and n < 2:", "        n += 1", "    for i in range(1):", "        while n < 4 and super().m(i):", "            n += 1", "    return ('K.wc', n)"], ["K().m(a)", "Sub().m(b)"]),
    "init_subclass": (["def __init_subclass__(cls, flavour=None, **kw):", "    super().__init_subclass__(**kw)", "    cls.flavour = flavour"], ["mksub(K, 'S2', flavour=a).flavour"]),
    "super_in_nested_function": (["def m(self, v):", "    def inner():", "        return super(K, self).m(v)", "    def inner2(s):", "        return super().m(v)", "    return ('K.nested', inner(), inner2(self), (lambda: __class__.__name__)())"], ["K().m(a)", "Sub().m(b)"]),
    "init_subclass_decorated": (["@hookdeco", "def __init_subclass__(cls, **kw):", "    super().__init_subclass__(**kw)", "    cls.hooked = sorted(kw)"], ["Sub.hooked", "mksub(K, 'S3').hooked"]),
    "classmethod_decorated": (["@classmethod", "@hookdeco", "def cmd(cls, v):", "    return (cls.__name__, v)"], ["K.cmd(a)", "Sub.cmd(b)"]),
    "staticmethod_decorated": (["@staticmethod", "@hookdeco", "def smd(v):", "    return v + 1"], ["K.smd(a)", "Sub().smd(b)"]),
    "property_decorated_getter": (["@property", "@hookdeco", "def pd(self):", "    return a"], ["K().pd"]),
    "method_default_classvar": (["dv = a", "def md(self, p=dv):", "    return p"], ["K().md()", "K().md(b)"]),
    "method_names_class": (["def who(self):", "    return K.__name__", "def mk(self):", "    return type(self)()"], ["K().who()", "type(Sub().mk()).__name__"]),
    "mdeco": (["@mdeco", "def dm(self, v):", "    return v * 2"], ["K().dm(a)"]),
    "dunder": (["def __len__(self):", "    return 3", "def __getitem__(self, i):", "    return i + a", "def __eq__(self, o):", "    return True", "def __hash__(self):", "    return 7"], ["len(K())", "K()[b]", "K() == 1", "hash(K())"]),
    "global_read": (["gr = G + a"], ["K.gr"]),
    "closure_method": (["def outerm(self):", "    t = a", "    def inner():", "        nonlocal t", "        t += b", "        return t", "    return inner()"], ["K().outerm()"]),
    "docstring": (["'''doc'''", "dz = a"], ["K.dz"]),
    # defaults that read an EARLIER class attribute (evaluated in the class body): positional and
    # keyword-only, of lambdas and of defs
    "lambda_defaults_classvar": (["kv = a", "lamk = lambda self, *, u=kv: ('k', u)", "lamp = lambda self, u=kv, *r, w=kv + 1: ('p', u, w)"], ["K().lamk()", "K().lamp()", "K().lamp(b, w=0)", "Sub().lamk(u=b)"]),
    "def_defaults_classvar": (["dv2 = a", "def mk2(self, p=dv2, *, q=dv2 + 1, **kw):", "    return (p, q, sorted(kw))"], ["K().mk2()", "K().mk2(b, q=0, z=1)"]),
    # private names (two leading underscores): mangled to _K__name inside the class body and its methods
    "private_attr": (["__pv = a", "def getp(self):", "    return (self.__pv, K.__pv)"], ["K().getp()", "sorted(k for k in vars(K) if k.endswith('__pv'))", "Sub().getp()", "K._K__pv"]),
    "private_method": (["def __hm(self, v, __q=1):", "    return v + a + __q", "def callp(self):", "    def inner():", "        return self.__hm(b)", "    return (inner(), (lambda: self.__hm(0))())"], ["K().callp()", "hasattr(K, '_K__hm')", "hasattr(K, '__hm')"]),
    "private_instance_attr": (["def setiv(self):", "    self.__iv = a", "    return self", "def giv(self):", "    return (self.__iv, self._K__iv, sorted(vars(self)))"], ["K().setiv().giv()"]),
    "private_nested_class": (["class __In:", "    __y = b", "    def gy(self):", "        return self.__y", "def mkin(self):", "    return self.__In().gy()"], ["K().mkin()", "K._K__In.__name__", "sorted(k for k in vars(K._K__In) if k.endswith('__y'))"]),
    # hooks that Python wraps implicitly (only if they are plain functions when the class is created)
    "class_getitem": (["def __class_getitem__(cls, item):", "    return (cls.__name__, item, a)"], ["K[b]", "Sub[1]"]),
    "class_getitem_explicit_cm": (["@classmethod", "def __class_getitem__(cls, item):", "    return (cls.__name__, item)"], ["K[a]", "Sub[b]"]),
    "init_subclass_explicit_cm": (["@classmethod", "def __init_subclass__(cls, **kw):", "    super().__init_subclass__(**kw)", "    cls.ehook = a"], ["Sub.ehook", "mksub(K, 'S4').ehook"]),
    # the class body still sees the EARLIER binding of the class name (third element: statements
    # placed before the class statement in the same scope)
    "reads_earlier_binding": (["prev = K.ca0 + a", "def old(self):", "    return self.prev"], ["K.prev", "K().old()", "hasattr(K, 'ca0')"], ["class K:", "    ca0 = 7"]),
}
NEED_BASE_M = {"super0", "super2", "super_cm", "super_in_nested_function", "super_in_while_condition"}
DEFAULT_HEADER = ("one", "none", "none", "0", "module")


def headers():
    for bases in BASES:
        for meta in ("none", "M"):
            for kw in ("none", "tag", "extra"):
                for deco in DECOS:
                    for place in ("module", "function", "class"):
                        if kw == "tag" and bases != "is":
                            continue  # tag= must be consumed by IS.__init_subclass__
                        if kw == "extra" and meta != "M":
                            continue  # extra= must be consumed by the metaclass
                        if bases == "is" and kw == "extra":
                            continue
                        yield (bases, meta, kw, deco, place)


def render(header, members):
    bases, meta, kw, deco, place = header
    args = []
    if BASES[bases]:
        args.append(BASES[bases])
    if meta == "M":
        args.append("metaclass=M")
    if kw == "tag":
        args.append("tag=a")
    if kw == "extra":
        args.append("extra=b")
    head = "class K%s:" % ("(" + ", ".join(args) + ")" if args else "")
    body = []
    obs = []
    setup = []
    for m in members:
        lines, o = MEMBERS[m][:2]
        body += lines
        obs += o
        if len(MEMBERS[m]) > 2:
            setup += MEMBERS[m][2]
    if not body:
        body = ["pass"]
    cls_lines = setup + DECOS[deco] + [head] + ["    " + l for l in body]
    tail = ["class Sub(K):", "    pass"]
    obs_lines = ["log('cls', K)", "log('mro', [c.__name__ for c in K.__mro__], type(K).__name__, getattr(K, 'meta_kw', None), getattr(K, 'tag', None))"]
    for o in obs:
        obs_lines.append("log(%r, %s)" % (o, o))
    helpers = ["def setp(o, v):", "    o.p = v", "    return o.p", "def mksub(base, name, **kw):", "    return type(base)(name, (base,), {}, **kw)"]
    if place == "module":
        lines = helpers + cls_lines + tail + obs_lines
    elif place == "function":
        inner = cls_lines + tail + obs_lines + ["return K"]
        lines = helpers + ["def mk():"] + ["    " + l for l in inner] + ["KK = mk()", "log('outer', KK.__name__, 'K' in globals())"]
    else:  # class body placement: K is an attribute of Outer
        inner = cls_lines
        lines = helpers + ["class Outer:"] + ["    " + l for l in inner] + ["K = Outer.K"] + tail + obs_lines + ["log('outer', sorted(n for n in vars(Outer) if not n.startswith('__')))"]
    return PRELUDE + "\n".join(lines) + "\n"


def skeletons():
    """yield (desc, src)"""
    names = list(MEMBERS)
    n = len(names)
    hs = list(headers())
    for h, header in enumerate(hs):
        ms = [names[h % n], names[(h * 7 + 3) % n], names[(h * 3 + 1) % n]]
        ms = list(dict.fromkeys(ms))
        ms = fix_members(header, ms)
        yield "C12:%s:%s" % ("/".join(header), "+".join(ms)), render(header, ms)
    for m in names:
        ms = fix_members(DEFAULT_HEADER, [m])
        yield "C12:%s:%s" % ("/".join(DEFAULT_HEADER), "+".join(ms)), render(DEFAULT_HEADER, ms)
    for m1, m2 in itertools.combinations(names, 2):
        ms = fix_members(DEFAULT_HEADER, [m1, m2])
        if len(ms) < 2:
            continue
        yield "C12:%s:%s" % ("/".join(DEFAULT_HEADER), "+".join(ms)), render(DEFAULT_HEADER, ms)


def fix_members(header, ms):
    out = []
    have_m = False
    have_init = False
    for m in ms:
        if m in NEED_BASE_M and header[0] in ("none", "is"):
            continue  # needs a base defining m / cm
        if m in ("super0", "super2", "super_in_nested_function", "super_in_while_condition"):
            if have_m:
                continue
            have_m = True
        if m in ("init", "prop"):
            if have_init:
                continue
            have_init = True
        out.append(m)
    return out or ["attr"]
