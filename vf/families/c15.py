"""C15 extras: 3.8-valid sources whose rendering differs between host versions (f-string quoting
rules changed in 3.12; parenthesised walrus / lambda in f-strings; positional-only parameters)."""

EXTRAS = {
    "fstr_str_in_field": "d = {'k': 1}\nprint(f\"{d['k']}\")\n",
    "fstr_str_concat_in_field": "print(f'{\"a\" + \"b\"}')\n",
    "fstr_nested": "x = 5\nprint(f\"{f'{x}'}\")\n",
    "fstr_nested_spec": "x = 5\nw = 4\nprint(f\"{x!r:>{w}}|{f'{x:{w}}'}\")\n",
    "fstr_dict_display": "x = 1\nprint(f'{ {1: x}[1] }')\n",
    "fstr_lambda_walrus": "print(f'{(lambda: 3)()} {(y := 4)} {y}')\n",
    "fstr_call_str_arg": "print(f'{\",\".join([\"a\", \"b\"])}')\n",
    "fstr_both_quotes": "x = 1\nprint(f\"\"\"{x}'\\\"\"\"\")\n",
    "fstr_bytes_in_field": "print(f'{b\"ab\"!r}')\n",
    "fstr_in_function_default": "def f(a=f'{\"q\"}'):\n    return a\nprint(f())\n",
    "str_escapes": "print('a\\tb\\x00\\u1234\\U0001f600', \"q'\\\"\")\n",
    "posonly": "def f(a, b=2, /, c=3, *, d=4):\n    return (a, b, c, d)\nprint(f(1), f(1, 5, d=6))\n",
    "walrus_chain": "if (n := 10) > 5:\n    print(n)\nprint([m for v in range(3) if (m := v * 2)])\n",
    "dict_merge_runtime": "a = {**{'x': 1}, 'y': 2}\nprint(a)\n",
    "matmul_class": "class M:\n    def __matmul__(s, o):\n        return 'mm'\nprint(M() @ M())\n",
    "unpack_in_return": "def f():\n    r = [1, 2]\n    return (*r, 3)\nprint(f())\n",
    "class_kw_super": "class A:\n    def m(self):\n        return 1\nclass B(A):\n    def m(self):\n        return super().m() + 1\nprint(B().m())\n",
    "global_nonlocal": "g = 0\ndef f():\n    global g\n    t = 0\n    def h():\n        nonlocal t\n        t += 1\n        return t\n    g = h()\nf()\nprint(g)\n",
    "import_forms": "import os.path\nimport json as j\nfrom math import floor as fl\nprint(os.path.sep, j.dumps([1]), fl(2.5))\n",
    "super_in_loop": "class A:\n    def m(self):\n        return 1\nclass B(A):\n    def m(self):\n        t = 0\n        for i in range(2):\n            t += super().m()\n        while t < 5:\n            t += super().m()\n        return t\n    @classmethod\n    def c(cls):\n        for i in range(1):\n            return super().__name__ if False else cls.__name__\nprint(B().m(), B.c())\n",
    "comprehension_in_method_self": "class A:\n    k = 2\n    def m(self):\n        return [self.k * i for i in range(3) if i != self.k]\nprint(A().m())\n",
    "nested_function_in_loop": "fs = []\nfor i in range(3):\n    def f(j=i):\n        return j * 2\n    fs.append(f)\nprint([f() for f in fs], i)\n",
    "class_in_loop": "out = []\nfor i in range(2):\n    class K:\n        v = i\n        def get(self):\n            return self.v\n    out.append(K().get())\nprint(out)\n",
    "aug_all": "x = 7\nx += 1\nx -= 2\nx *= 3\nx //= 2\nx %= 5\nx **= 2\nx <<= 1\nx >>= 1\nx &= 7\nx |= 8\nx ^= 3\nprint(x)\n",
}
