"""C13 family: destructuring patterns x source kinds with symbolic source length/elements;
subscript/slice stores with symbolic bounds; augmented assignment cells
(13 operators x target kind x operand kind x placement) with alias / store-count observation."""
import itertools

# ---------------------------------------------------------------------------------------------
# (a) destructuring
# ---------------------------------------------------------------------------------------------
# a pattern is a tuple of elements; element = 'n' (name) | ('*',) starred name | pattern (nested)


def flat_patterns(max_arity):
    for n in range(1, max_arity + 1):
        yield tuple("n" for _ in range(n))
        for sp in range(n):
            yield tuple(("*",) if k == sp else "n" for k in range(n))


def patterns(depth, max_arity=3, nested_arity=2):
    """all patterns of nesting depth <= depth; at most one nested sub-pattern per level to keep the
    family finite and small, placed at every position"""
    base = list(flat_patterns(max_arity))
    if depth == 1:
        for p in base:
            yield p
        return
    subs = list(patterns(depth - 1, nested_arity, nested_arity))
    for p in base:
        yield p
        for pos, el in enumerate(p):
            if el != "n":
                continue
            for sp in subs:
                yield p[:pos] + (sp,) + p[pos + 1 :]


def pat_str(p, names, bracket="("):
    parts = []
    for el in p:
        if el == "n":
            parts.append(names.pop(0))
        elif el == ("*",):
            parts.append("*" + names.pop(0))
        else:
            parts.append(pat_str(el, names, "[" if bracket == "(" else "("))
    inner = ", ".join(parts)
    if bracket == "(":
        return "(" + inner + ("," if len(parts) == 1 else "") + ")"
    return "[" + inner + "]"


def pat_desc(p):
    out = []
    for el in p:
        if el == "n":
            out.append("n")
        elif el == ("*",):
            out.append("*")
        else:
            out.append("(" + pat_desc(el) + ")")
    return "".join(out)


def count_leaves(p):
    return sum(1 if (el == "n" or el == ("*",)) else count_leaves(el) for el in p)


def min_len(p):
    return sum(0 if el == ("*",) else 1 for el in p)


def has_star(p):
    return any(el == ("*",) for el in p)


SRC_KINDS = ["list", "tuple", "gen", "iter", "dictvalues", "str", "range"]


def wrap_expr(kind, v):
    return {
        "list": "list(%s)" % v,
        "tuple": "tuple(%s)" % v,
        "gen": "(x for x in %s)" % v,
        "iter": "iter(%s)" % v,
        "dictvalues": "{i: x for i, x in enumerate(%s)}.values()" % v,
    }[kind]


def destructuring_templates(depth, kinds):
    """yield (desc, src, params, pre)"""
    sym_lists = ["S", "T", "U"]
    for p in patterns(depth):
        nleaves = count_leaves(p)
        if nleaves > 6:
            continue
        for kind in kinds:
            nested = [(pos, el) for pos, el in enumerate(p) if el != "n" and el != ("*",)]
            if kind in ("str", "range") and nested:
                continue
            names = ["t%d" % k for k in range(nleaves)]
            all_names = list(names)
            lines = []
            params = []
            pre = []
            lo = min_len(p)
            hi = lo + 3 if has_star(p) else lo
            if kind == "str":
                params.append(("s", "str"))
                pre.append("%d <= len(s) <= %d" % (lo, hi))
                srcv = "s"
            elif kind == "range":
                params.append(("n", "int"))
                pre.append("%d <= n <= %d" % (lo, hi))
                srcv = "range(n)"
            else:
                params.append(("S", "List[int]"))
                pre.append("%d <= len(S) <= %d" % (lo, hi))
                lines.append("L = list(S)")
                # nested positions: index from the front before the star, from the back after it
                star_pos = [k for k, el in enumerate(p) if el == ("*",)]
                used = 1
                for pos, el in nested:
                    if star_pos and pos > star_pos[0]:
                        idx = pos - len(p)
                    else:
                        idx = pos
                    sub_expr, used = nested_source(el, sym_lists, used, params, pre, kind)
                    lines.append("L[%d] = %s" % (idx, sub_expr))
                srcv = wrap_expr(kind, "L")
            target = pat_str(p, names)
            if kind == "iter":
                lines.append("it = %s" % srcv)
                lines.append("%s = it" % target)
                lines.append("log('rest', list(it))")
            else:
                lines.append("%s = %s" % (target, srcv))
            lines.append("log(%s)" % ", ".join(all_names))
            desc = "C13:destr:%s:%s" % (pat_desc(p), kind)
            yield desc, "\n".join(lines) + "\n", params, " and ".join(pre)


def nested_source(el, sym_lists, used, params, pre, kind):
    """expression producing an iterable matching sub-pattern `el`; uses the next symbolic list"""
    name = sym_lists[used] if used < len(sym_lists) else None
    inner_nested = [(pos, x) for pos, x in enumerate(el) if x != "n" and x != ("*",)]
    lo = min_len(el)
    hi = lo + 2 if has_star(el) else lo
    if name is None:
        # out of symbolic lists: concrete source of minimal length
        return "[%s]" % ", ".join(str(70 + k) for k in range(lo)), used
    params.append((name, "List[int]"))
    pre.append("%d <= len(%s) <= %d" % (lo, name, hi))
    used += 1
    expr = "list(%s)" % name
    if inner_nested:
        # depth 3: innermost pattern gets a concrete source of its minimal length (+1 if starred)
        star_pos = [k for k, x in enumerate(el) if x == ("*",)]
        subs = {}
        for pos, x in inner_nested:
            n = min_len(x) + (1 if has_star(x) else 0)
            subs[pos] = "[%s]" % ", ".join(str(90 + k) for k in range(n))
        items = []
        for pos, x in inner_nested:
            idx = pos - len(el) if (star_pos and pos > star_pos[0]) else pos
            items.append((idx, subs[pos]))
        # (lambda l: [l.__setitem__(i, v), l][-1])(list(T)) keeps it an expression
        sets = ", ".join("l.__setitem__(%d, %s)" % (i, v) for i, v in items)
        expr = "(lambda l: [%s, l][-1])(list(%s))" % (sets, name)
    if kind in ("tuple",):
        expr = "tuple(%s)" % expr
    elif kind == "gen":
        expr = "(y for y in %s)" % expr
    return expr, used


# ---------------------------------------------------------------------------------------------
# (b) subscript / slice stores with symbolic bounds
# ---------------------------------------------------------------------------------------------
def slice_store_templates():
    masks = list(itertools.product([0, 1], repeat=3))
    for lo, hi, st in masks:
        sl = "%s:%s%s" % ("i" if lo else "", "j" if hi else "", (":k" if st else ""))
        params = [("S", "List[int]"), ("R", "List[int]")]
        pre = ["len(S) <= 2", "len(R) <= 2"]
        if lo:
            params.append(("i", "int"))
            pre.append("-3 <= i <= 3")
        if hi:
            params.append(("j", "int"))
            pre.append("-3 <= j <= 3")
        if st:
            params.append(("k", "int"))
            pre.append("-2 <= k <= 2 and k != 0")
        src = "L = list(S)\nM = L\nL[%s] = R\nlog(L, M is L)\n" % sl
        yield "C13:slicestore:%d%d%d" % (lo, hi, st), src, params, " and ".join(pre)
    # the same slice stores (plain and augmented) in the other scope kinds
    def place(body, pl):
        ind = "".join("    " + l + "\n" for l in body.splitlines())
        if pl == "function":
            return "def outer():\n" + ind + "outer()\n"
        if pl == "class":
            return "class Outer:\n" + ind
        if pl == "closure":
            lines = body.splitlines()
            return "def outer():\n    " + lines[0] + "\n    " + lines[1] + "\n    def inner():\n" + "".join("        " + l + "\n" for l in lines[2:]) + "    inner()\nouter()\n"
        raise ValueError(pl)

    for pl in ("function", "class", "closure"):
        for lo, hi, aug in ((1, 1, 0), (1, 0, 0), (0, 1, 1), (1, 1, 1)):
            sl = "%s:%s" % ("i" if lo else "", "j" if hi else "")
            params = [("S", "List[int]"), ("R", "List[int]")]
            pre = ["len(S) <= 2", "len(R) <= 2"]
            if lo:
                params.append(("i", "int"))
                pre.append("-3 <= i <= 3")
            if hi:
                params.append(("j", "int"))
                pre.append("-3 <= j <= 3")
            body = "L = list(S)\nM = L\nL[%s] %s R\nlog(L, M is L)\n" % (sl, "+=" if aug else "=")
            yield "C13:slicestore:%s:%d%d%s" % (pl, lo, hi, "aug" if aug else ""), place(body, pl), params, " and ".join(pre)
    # slices inside a tuple index (extended slices), stores / augmented stores / loop targets
    rec = (
        "def key(k):\n    return tuple((x.start, x.stop, x.step) if isinstance(x, slice) else x for x in (k if isinstance(k, tuple) else (k,)))\n"
        "class Rec:\n    def __setitem__(s, k, v):\n        log('set', key(k), v)\n    def __getitem__(s, k):\n        log('get', key(k))\n        return 1\n"
    )
    for pl in ("module", "function", "class"):
        body = "d = Rec()\nd[i:j, v] = v\nd[i:j, ::v] += v\nd[..., i:] = j\nfor d[i, j:] in [v, i]:\n    pass\nx = d[:i, v:j] = j\nlog(x)\n"
        yield "C13:extslice:%s" % pl, rec + (body if pl == "module" else place(body, pl)), [("i", "int"), ("j", "int"), ("v", "int")], "-2 <= i <= 2 and -2 <= j <= 2 and -2 <= v <= 2"
    # chained assignment: every ordered pair / triple of target kinds, the value being a bare NAME
    # that some of the targets rebind (Python evaluates the value once; a later target must not
    # re-read the name), a call, or a display
    TK = {
        "name": "x",
        "valname": "v",
        "star_rebinds": "(p, *v)",
        "pair_rebinds": "[v, q]",
        "star_other": "(r, *t)",
        "attr": "o.a",
        "sub": "L[0]",
    }
    VK = {"name": "v", "call": "list(v)", "display": "[a, b, c]"}
    import itertools as _it

    combos = list(_it.permutations(TK, 2)) + [c for c in _it.permutations(TK, 3) if "valname" in c or "star_rebinds" in c or "pair_rebinds" in c]
    for combo in combos:
        for vk, vexpr in VK.items():
            if vk != "name" and len(combo) == 3:
                continue
            if "pair_rebinds" in combo and vk == "display":
                continue  # [v, q] = [a, b, c] raises
            setup = "class O: pass\no = O()\nL = [0]\n" + ("v = [a, b]\n" if "pair_rebinds" in combo else "v = [a, b, c]\n")
            stmt = " = ".join(TK[t] for t in combo) + " = " + vexpr
            names = ["x", "v", "p", "q", "r", "t"]
            obs = "log([(n, globals()[n]) for n in %r if n in globals()], getattr(o, 'a', None), L)\n" % (names,)
            ident = "log(%s)\n" % ", ".join("%s is %s" % (a_, b_) for a_, b_ in (("x", "v"), ("o.a", "L[0]"), ("x", "o.a")) if all(({"x": "name", "v": None, "o.a": "attr", "L[0]": "sub"}[z] in combo or z == "v") for z in (a_, b_)))
            if ident == "log()\n":
                ident = ""
            yield "C13:chainmix:%s=%s" % ("=".join(combo), vk), setup + stmt + "\n" + obs + ident, [("a", "int"), ("b", "int"), ("c", "int")], "True"
    # index store, dict store, attribute store, nested containers, negative index
    yield (
        "C13:indexstore:list",
        "L = list(S)\nL[i] = v\nlog(L)\n",
        [("S", "List[int]"), ("i", "int"), ("v", "int")],
        "1 <= len(S) <= 4 and -4 <= i <= 3",
    )
    yield (
        "C13:indexstore:dict",
        "D = {}\nD[i] = v\nD[j] = i\nlog(D, len(D))\n",
        [("i", "int"), ("j", "int"), ("v", "int")],
        "-2 <= i <= 2 and -2 <= j <= 2",
    )
    yield (
        "C13:attrstore",
        "class O: pass\no = O()\no.p = a\no.q = o.p + b\np = o\np.p = b\nlog(o.p, o.q, p is o)\n",
        [("a", "int"), ("b", "int")],
        "True",
    )
    yield (
        "C13:chain",
        "x = y = z = [a, b]\nlog(x, y is x, z is x)\nL = [0, 0]\nL[0] = L[1] = w = a\nlog(L, w)\n",
        [("a", "int"), ("b", "int")],
        "True",
    )
    yield (
        "C13:annassign",
        "x: int = a\ny: int\nz: 'str' = b\nlog(x, z)\nclass O: pass\no = O()\no.v: int = a\nL = [0]\nL[0]: int = b\nlog(o.v, L)\n",
        [("a", "int"), ("b", "int")],
        "True",
    )
    yield (
        "C13:swap",
        "x, y = a, b\nx, y = y, x\nL = [a, b, a]\nL[0], L[2] = L[2], L[1]\nlog(x, y, L)\n",
        [("a", "int"), ("b", "int")],
        "True",
    )
    yield (
        "C13:destr_into_targets",
        "class O: pass\no = O()\nL = [0, 0, 0]\nD = {}\no.v, L[1], D['k'], *L[2:] = S\nlog(o.v, L, D)\n",
        [("S", "List[int]")],
        "3 <= len(S) <= 6",
    )


# ---------------------------------------------------------------------------------------------
# (c) augmented assignment cells
# ---------------------------------------------------------------------------------------------
OPS = [
    ("+", "add"),
    ("-", "sub"),
    ("*", "mul"),
    ("@", "matmul"),
    ("/", "truediv"),
    ("//", "floordiv"),
    ("%", "mod"),
    ("**", "pow"),
    ("<<", "lshift"),
    (">>", "rshift"),
    ("&", "and"),
    ("|", "or"),
    ("^", "xor"),
]

# operand kinds: (left expr, right expr, params, pre) per operator; None = skip
def operand(kind, op):
    sym, name = op
    if kind == "int":
        pre = "True"
        if sym in ("/", "&", "|", "^"):
            # float results / bit operations on unbounded symbolic ints are inconclusive in
            # CrossHair: concrete operands (the lowering's paths do not depend on the values)
            return "12", "10", [], "True"
        if sym in ("//", "%"):
            pre = "b != 0"
        elif sym == "**":
            pre = "0 <= b <= 3 and -9 <= a <= 9"
        elif sym in ("<<", ">>"):
            pre = "0 <= b <= 6"
        elif sym == "@":
            return None
        return "a", "b", [("a", "int"), ("b", "int")], pre
    if kind == "float":
        if sym in ("@", "<<", ">>", "&", "|", "^"):
            return None
        return "1.5", "2.0", [], "True"
    if kind == "str":
        if sym == "+":
            return "s", "'x'", [("s", "str")], "len(s) <= 2"
        if sym == "*":
            return "s", "b", [("s", "str"), ("b", "int")], "len(s) <= 2 and 0 <= b <= 3"
        if sym == "%":
            return "'<%s>'", "'ab'", [], "True"
        return None
    if kind == "list":
        if sym == "+":
            return "[a]", "[b]", [("a", "int"), ("b", "int")], "True"
        if sym == "*":
            return "[a, b]", "n", [("a", "int"), ("b", "int"), ("n", "int")], "0 <= n <= 3"
        return None
    if kind == "tuple":
        if sym == "+":
            return "(a,)", "(b,)", [("a", "int"), ("b", "int")], "True"
        if sym == "*":
            return "(a, b)", "n", [("a", "int"), ("b", "int"), ("n", "int")], "0 <= n <= 3"
        return None
    if kind == "set":
        if sym in ("|", "&", "-", "^"):
            return "{1, 2}", "{2, 3}", [], "True"
        return None
    if kind == "dict":
        if sym == "|":
            return "{'k': a}", "{'j': b, 'k': b}", [("a", "int"), ("b", "int")], "True"
        return None
    if kind in ("u_self", "u_new", "u_notimpl", "u_noiop"):
        return "UV(%r, 1)" % kind, "UV('u_noiop', 2)", [], "True"
    if kind == "u_reflected":
        return "UPlain(1)", "UV('u_reflected', 2)", [], "True"
    if kind == "u_both_notimpl":
        # left in-place and binary return NotImplemented, right operand has the reflected method
        return "UV('u_allnotimpl', 1)", "UV('u_reflected', 2)", [], "True"
    raise ValueError(kind)


OPERAND_KINDS = ["int", "float", "str", "list", "tuple", "set", "dict", "u_self", "u_new", "u_notimpl", "u_noiop", "u_reflected", "u_both_notimpl"]
TARGET_KINDS = ["name", "attr", "sub", "slice"]
PLACEMENTS = ["global", "local", "nonlocal", "class", "globaldecl", "class_reads_global", "class_in_function_reads_global", "forvar", "captured"]


def aug_cell(op, tk, ok, pl):
    """(desc, src, params, pre) or None"""
    o = operand(ok, op)
    if o is None:
        return None
    left, right, params, pre = o
    sym = op[0]
    if tk == "slice":
        # slice target: left must be a list slice; only list-compatible operand kinds
        if ok != "list" and ok != "int":
            return None
        if ok == "int":
            return None
        if sym == "+":
            left, right = "[a, b, a]", "[b]"
        elif sym == "*":
            left, right = "[a, b, a]", "n"
        else:
            return None
    if tk != "name" and pl not in ("global", "local"):
        return None
    body = []
    if tk == "name":
        body += ["x = %s" % left, "al = x", "x %s= %s" % (sym, right), "log('r', x, al, x is al)"]
    elif tk == "attr":
        body += ["o = Box()", "o.v = %s" % left, "al = o.v", "o.v %s= %s" % (sym, right), "log('r', o.v, al, o.v is al)"]
    elif tk == "sub":
        body += ["d = Box()", "d['k'] = %s" % left, "al = d['k']", "d['k'] %s= %s" % (sym, right), "log('r', d['k'], al, d['k'] is al)"]
    elif tk == "slice":
        body += ["l = %s" % left, "al = l", "l[0:2] %s= %s" % (sym, right), "log('r', l, al is l)"]
    if pl == "global":
        lines = body
    elif pl == "local":
        lines = ["def f():"] + ["    " + b for b in body] + ["f()"]
    elif pl == "nonlocal":
        lines = (
            ["def f():", "    x = %s" % left, "    al = x", "    def g():", "        nonlocal x", "        x %s= %s" % (sym, right), "    g()", "    log('r', x, al, x is al)", "f()"]
        )
    elif pl == "class":
        lines = ["class K:"] + ["    " + b for b in body[:3]] + ["    log('r', x, al, x is al)", "log('k', K.x, K.al, K.x is K.al)"]
    elif pl == "class_reads_global":
        # the class body augments a name it has not bound: the left operand is the module global
        lines = ["x = %s" % left, "al = x", "class K:", "    x %s= %s" % (sym, right), "log('r', x, al, x is al, K.x, K.x is al)"]
    elif pl == "class_in_function_reads_global":
        # ... also when the class is nested in a function that owns a variable of the same name
        lines = ["x = %s" % left, "al = x", "def f(x):", "    class K:", "        x %s= %s" % (sym, right), "    return (K.x, x)", "log('r', f('fx'), x, al, x is al)"]
    elif pl == "forvar":
        lines = ["al = None", "for x in [%s]:" % left, "    al = x", "    x %s= %s" % (sym, right), "log('r', x, al, x is al)"]
    elif pl == "captured":
        lines = ["def f():", "    x = %s" % left, "    al = x", "    def rd():", "        return x", "    x %s= %s" % (sym, right), "    log('r', x, al, x is al, rd() is x)", "f()"]
    elif pl == "globaldecl":
        lines = ["x = %s" % left, "al = x", "def f():", "    global x", "    x %s= %s" % (sym, right), "f()", "log('r', x, al, x is al)"]
    desc = "C13:aug:%s:%s:%s:%s" % (op[1], tk, ok, pl)
    return desc, "\n".join(lines) + "\n", params, pre


def aug_cells():
    for op in OPS:
        for tk in TARGET_KINDS:
            for ok in OPERAND_KINDS:
                for pl in PLACEMENTS:
                    c = aug_cell(op, tk, ok, pl)
                    if c is not None:
                        yield c
