"""C01 family: feature catalogue (DESIGN.md appendix B.1): every feature alone, every ordered pair
in sequence, every pair nested (first feature has a hole), plus the repository's own test scripts.
Inputs: a, b symbolic ints, s symbolic short string; cond(0, v) logs the truth of v and returns v."""
import ast
import os

FEATURES = {
    "assign_name": ["x§ = a + 1", "print('x§', x§)"],
    "assign_attr": ["class Bx§: pass", "o§ = Bx§()", "o§.v = a", "o§.w = o§.v + b", "print('o§', o§.v, o§.w)"],
    "assign_sub": ["d§ = {}", "d§['k'] = a", "d§[b] = d§['k'] + 1", "print('d§', d§['k'], d§[b], len(d§))"],
    "assign_slice": ["l§ = [a, b, a, b]", "l§[1:3] = [b]", "l§[:1] = [a, a]", "print('l§', l§)"],
    "assign_tuple": ["p§, q§ = a, b", "p§, q§ = q§, p§", "print('pq§', p§, q§)"],
    "assign_star": ["h§, *m§, t§ = [a, b, a, b]", "print('hmt§', h§, m§, t§)"],
    "assign_nested": ["(u§, (v§, *w§)) = (a, [b, a, b])", "print('uvw§', u§, v§, w§)"],
    "assign_chain": ["ch§ = ci§ = [a]", "ch§.append(b)", "print('ch§', ch§, ci§, ch§ is ci§)"],
    "aug_name": ["n§ = a", "n§ += b", "n§ *= 2", "n§ -= 1", "print('n§', n§)"],
    "aug_list_alias": ["al§ = [a]", "bl§ = al§", "al§ += [b]", "print('al§', al§, bl§, al§ is bl§)"],
    "aug_sub": ["ad§ = {'k': a}", "ad§['k'] += b", "ad§['k'] //= 1", "print('ad§', ad§)"],
    "aug_attr": ["class Ba§: pass", "ao§ = Ba§()", "ao§.v = a", "ao§.v += b", "print('ao§', ao§.v)"],
    "if_else": ["if cond(0, a > b):", "    print('then§')", "    <<>>", "elif cond(0, a == b):", "    print('elif§')", "else:", "    print('else§')"],
    "while_else": ["i§ = 0", "while cond(0, i§ < 2):", "    i§ += 1", "    <<>>", "else:", "    print('welse§', i§)"],
    "while_break": ["j§ = 0", "while cond(0, j§ < 3):", "    j§ += 1", "    if cond(0, j§ == b):", "        break", "    <<>>", "else:", "    print('nobreak§')", "print('j§', j§)"],
    "for_else": ["for e§ in [a, b]:", "    print('e§', e§)", "    <<>>", "else:", "    print('felse§')"],
    "for_continue": ["for c§ in range(3):", "    if cond(0, c§ == a):", "        continue", "    print('c§', c§)", "    <<>>"],
    "for_break": ["for g§ in range(3):", "    if cond(0, g§ == b):", "        break", "    <<>>", "else:", "    print('fnobreak§')"],
    "for_lone_continue_else": ["for lc§ in range(4):", "    if cond(0, lc§ == a):", "        continue", "    else:", "        print('lc§', lc§)"],
    "while_lone_continue_elif": ["wl§ = 0", "while cond(0, wl§ < 3):", "    wl§ += 1", "    if cond(0, wl§ == b):", "        continue", "    elif cond(0, wl§ == a):", "        print('wl-a§', wl§)", "    else:", "        print('wl§', wl§)"],
    "def_bare_return_else": ["def br§(x):", "    if cond(0, x > a):", "        return", "    else:", "        print('br-else§', x)", "print('br§', br§(b), br§(a))"],
    "if_falsy_bodies": ["if cond(0, a > b):", "    fb§ = 0", "else:", "    fb§ = 1", "if cond(0, a == b):", "    []", "elif cond(0, a < b):", "    0", "else:", "    print('fb-else§')", "print('fb§', fb§)"],
    "if_falsy_call_body": ["def fz§():", "    print('fz-called§')", "    return 0", "if cond(0, a >= b):", "    fz§()", "else:", "    print('fz-else§')"],
    "def_posdefault": ["def f§(x, y=a, *r, z=b, **k):", "    <<>>", "    return (x, y, r, z, sorted(k))", "print('f§', f§(1), f§(1, 2, 3, z=4, w=5))"],
    "def_posonly": ["def fp§(x, /, y, *, z=a):", "    return (x, y, z)", "print('fp§', fp§(1, 2), fp§(1, y=b, z=3))"],
    "def_return_loop": ["def fr§(n):", "    for i in range(3):", "        if cond(0, i == n):", "            return i", "        <<>>", "    return -1", "print('fr§', fr§(a), fr§(b))"],
    "closure": ["def mk§(base):", "    def add(v):", "        return base + v", "    <<>>", "    return add", "print('mk§', mk§(a)(b))"],
    "nonlocal": ["def cnt§():", "    t = a", "    def inc(d):", "        nonlocal t", "        t += d", "        return t", "    inc(b)", "    <<>>", "    return inc(1)", "print('cnt§', cnt§())"],
    "global_stmt": ["gv§ = a", "def sg§():", "    global gv§", "    gv§ = gv§ + b", "    <<>>", "sg§()", "print('gv§', gv§)"],
    "class_plain": ["class K§:", "    ca = a", "    def __init__(self, v):", "        self.v = v", "    def get(self):", "        <<>>", "        return self.v + self.ca", "print('K§', K§(b).get(), K§.ca)"],
    "class_inherit": ["class P§:", "    def m(self):", "        return a", "class Q§(P§):", "    def m(self):", "        <<>>", "        return super().m() + b", "print('Q§', Q§().m(), [c.__name__ for c in Q§.__mro__][:2])"],
    "class_meta_kw": ["class Mt§(type):", "    def __new__(m, n, bs, ns, **kw):", "        c = super().__new__(m, n, bs, ns)", "        c.kw = sorted(kw.items())", "        return c", "    def __init__(c, n, bs, ns, **kw):", "        super().__init__(n, bs, ns)", "class Mc§(metaclass=Mt§, tag=a):", "    pass", "print('Mc§', Mc§.kw, type(Mc§).__name__)"],
    "class_decomethods": ["class Dm§:", "    @staticmethod", "    def s(v):", "        return v + a", "    @classmethod", "    def c(cls, v):", "        return (cls.__name__, v)", "    @property", "    def p(self):", "        return b", "print('Dm§', Dm§.s(1), Dm§.c(2), Dm§().p)"],
    "class_decorated": ["def cdeco§(c):", "    c.mark = a", "    return c", "@cdeco§", "class Cd§:", "    pass", "print('Cd§', Cd§.mark)"],
    "decorator": ["def deco§(f):", "    def w(*x):", "        return ('w', f(*x))", "    return w", "@deco§", "def df§(v):", "    return v + a", "print('df§', df§(b))"],
    "listcomp": ["lc§ = [v * a for v in range(3) if v != b]", "print('lc§', lc§)"],
    "dict_set_gen": ["dc§ = {v: v + a for v in range(2)}", "sc§ = {v % 2 for v in [3, 4]}", "ge§ = sum(v for v in [a, b])", "print('dsg§', dc§, sorted(sc§), ge§)"],
    "nested_comp": ["nc§ = [[r * c for c in range(2)] for r in [a, b]]", "print('nc§', nc§)"],
    "lambda": ["lm§ = lambda v, w=a: v + w", "print('lm§', lm§(b), lm§(1, 2))"],
    "walrus": ["if (wv§ := a + b) > a:", "    print('wv-then§')", "print('wv§', wv§)"],
    "fstring": ["fs§ = f'{a}-{b:>3}-{s!r}'", "print('fs§', fs§)"],
    "import": ["import math as mt§", "from os import path as pt§", "print('imp§', mt§.floor(2.5) + a, pt§.basename('x/y'))"],
    "str_ops": ["st§ = s + 'x' if cond(0, s.startswith('a')) else s", "print('st§', st§, len(st§))"],
    "chained_compare": ["print('cc§', a < b < 10, a == b != 3, a in [b])"],
    "ternary_boolop": ["tb§ = (a if a > b else b) or (a and b)", "print('tb§', tb§)"],
    "pass_expr": ["pass", "a + b", "print('pe§')"],
    # expression kinds with a placement restriction that the lowering moves into comprehension
    # iterables / lambda bodies / f-string fields: conversion must still succeed (since c5f2ce3 an
    # invalid result is turned into an error, i.e. into a refused supported script)
    "walrus_in_lambda_in_for_iter": ["for wl§ in map(lambda v: (wt§ := v * 2) + wt§, [a, b]):", "    print('wl§', wl§)"],
    "walrus_in_for_iter": ["for wf§ in (wr§ := [a, b]):", "    print('wf§', wf§, wr§)"],
    # (concrete values inside the fields: CrossHair cannot format symbolic ints with specs)
    "fstring_brace_start_fields": ["fb§ = f'{ {1: 7}[1] }|{ {7} | {8} }|{ {k: k for k in [7]}.get(7)!r}|{(lambda: 7)()}|{7 if 0 else (lambda: 1)()}'", "print('fb§', fb§, a)"],
    "fstring_quotes_in_spec": ["fq§ = f\"{7:'>5}|{8:\\\"<4}\"", "print('fq§', fq§, b)"],
    "lambda_ifexp_in_comp_filter": ["lf§ = [v for v in [a, b] if (lambda w: w if w else 1)(v)]", "print('lf§', lf§)"],
}


def has_hole(f):
    return any("<<>>" in l for l in FEATURES[f])


def inst(f, suffix, inner=None):
    out = []
    for l in FEATURES[f]:
        l = l.replace("§", suffix)
        if "<<>>" in l:
            ind = l[: len(l) - len(l.lstrip())]
            if inner:
                out += [ind + x for x in inner]
            continue
        out.append(l)
    return out


def programs():
    """yield (desc, src)"""
    names = list(FEATURES)
    for f in names:
        yield "C01:single:%s" % f, "\n".join(inst(f, "1")) + "\n"
    for f1 in names:
        for f2 in names:
            yield "C01:seq:%s,%s" % (f1, f2), "\n".join(inst(f1, "1") + inst(f2, "2")) + "\n"
    for f1 in names:
        if not has_hole(f1):
            continue
        for f2 in names:
            yield "C01:nest:%s(%s)" % (f1, f2), "\n".join(inst(f1, "1", inst(f2, "2"))) + "\n"


def loop_target_globals(src):
    """names bound as for-loop targets at module level (outside def/class): the by-design
    finding KF-C01-FORLEAK (a for target is a comprehension variable after lowering) concerns
    exactly these names' presence in the final globals"""
    tree = ast.parse(src)
    targets = set()
    other = set()

    def names_of(t, acc):
        for n in ast.walk(t):
            if isinstance(n, ast.Name):
                acc.add(n.id)

    def walk(stmts):
        for st in stmts:
            if isinstance(st, (ast.FunctionDef, ast.ClassDef, ast.AsyncFunctionDef)):
                other.add(st.name)
                continue
            if isinstance(st, ast.For):
                names_of(st.target, targets)
                walk(st.body)
                walk(st.orelse)
            elif isinstance(st, (ast.If, ast.While)):
                walk(st.body)
                walk(st.orelse)
            for n in ast.walk(st) if not isinstance(st, (ast.For, ast.If, ast.While)) else []:
                if isinstance(n, ast.Name) and isinstance(n.ctx, ast.Store):
                    other.add(n.id)
                elif isinstance(n, ast.alias):
                    other.add((n.asname or n.name).split(".")[0])

    walk(tree.body)
    # (a name that is a for target AND assigned elsewhere ends with the loop's last value in the
    # source but with the other binding in the converted program: same finding)
    return sorted(targets)


SCRIPT_PREFIX = {
    "aug_assign.py": """class _Bar:
    def __iadd__(self, v):
        return_value = 999
        print(f"bar iadd {v}, return {return_value}")
        return return_value
class Foo:
    def __getitem__(self, slice):
        print("getitem at", slice)
        return _Bar()
    def __setitem__(self, slice, value):
        print(f"setitem at {slice}, value: {value}")
    @property
    def bbb(self):
        print("get bbb")
        return _Bar()
    @bbb.setter
    def bbb(self, value):
        print("set bbb", value)
""",
}


def repo_scripts(repo):
    d = os.path.join(repo, "oneliner_tests", "test_cases")
    for fn in sorted(os.listdir(d)):
        if fn.endswith(".py"):
            with open(os.path.join(d, fn), encoding="utf8") as f:
                src = f.read()
            yield "C01:script:%s" % fn, SCRIPT_PREFIX.get(fn, "") + src
