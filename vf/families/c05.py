"""C05 family: every control-flow skeleton over
  Block := Stmt{1..}
  Stmt  := mark | break | continue | return v | if c: Block [else: Block]
         | while c: Block [else: Block] | for x in It(i): Block [else: Block]
with exactly `size` nodes and nesting depth <= `depth`, at module / function / class level, plus
decorations (elif chain, loop-variable read, def inside a loop, dead code after an interrupt)."""


def blocks(size, depth, in_loop, in_func):
    if size == 0:
        return
    for k in range(1, size + 1):
        for s in stmts(k, depth, in_loop, in_func):
            if k == size:
                yield (s,)
            else:
                if s[0] in ("break", "continue", "return"):
                    continue  # dead code after an interrupt: separate small family (dead_code())
                for rest in blocks(size - k, depth, in_loop, in_func):
                    yield (s,) + rest


def stmts(size, depth, in_loop, in_func):
    if size == 1:
        yield ("mark",)
        if in_loop:
            yield ("break",)
            yield ("continue",)
        if in_func:
            yield ("return",)
        return
    if depth == 0:
        return
    inner = size - 1
    for b in blocks(inner, depth - 1, in_loop, in_func):
        yield ("if", b, ())
    for kb in range(1, inner):
        for b in blocks(kb, depth - 1, in_loop, in_func):
            for e in blocks(inner - kb, depth - 1, in_loop, in_func):
                yield ("if", b, e)
    for loop in ("while", "for"):
        for b in blocks(inner, depth - 1, True, in_func):
            yield (loop, b, ())
        for kb in range(1, inner):
            for b in blocks(kb, depth - 1, True, in_func):
                for e in blocks(inner - kb, depth - 1, in_loop, in_func):
                    yield (loop, b, e)


def has_kind(b, kinds):
    for s in b:
        if s[0] in kinds:
            return True
        if s[0] in ("if", "while", "for") and (has_kind(s[1], kinds) or has_kind(s[2], kinds)):
            return True
    return False


class _R:
    def __init__(self):
        self.m = 0
        self.c = 0
        self.i = 0
        self.r = 0


BARE_RETURN = [False]  # render option: `return` without a value (the function then returns None)
RETURN_MASK = [None]  # render option: bit j set -> the j-th return (in source order) is bare
PAD = [None]  # render option: a statement that lowers to nothing, inserted before every statement
SHARED_ITERS = [False]  # render option: loops run over named iterators created before, drained after
PAD_STMTS = {"ann": "zq: int", "glob": "global gq", "pass": "pass", "const": "'doc'", "def": "def pq(): return 1", "cls": "class Pq: pass"}


def render(b, ind, r, read_target=False):
    out = []
    pad = "    " * ind
    for s in b:
        k = s[0]
        if PAD[0]:
            out.append(pad + PAD_STMTS[PAD[0]])
        if k == "mark":
            out.append("%smark(%d)" % (pad, r.m))
            r.m += 1
        elif k in ("break", "continue"):
            out.append(pad + k)
        elif k == "return":
            bare = BARE_RETURN[0]
            if RETURN_MASK[0] is not None:
                bare = bool(RETURN_MASK[0] >> r.r & 1)
                r.r += 1
            if bare:
                out.append("%sreturn" % pad)
            else:
                out.append("%sreturn %d" % (pad, 100 + r.m))
            r.m += 1
        elif k == "if":
            out.append("%sif cond(%d):" % (pad, r.c))
            r.c += 1
            out += render(s[1], ind + 1, r, read_target)
            if s[2]:
                out.append(pad + "else:")
                out += render(s[2], ind + 1, r, read_target)
        elif k == "while":
            out.append("%swhile cond(%d):" % (pad, r.c))
            r.c += 1
            out += render(s[1], ind + 1, r, read_target)
            if s[2]:
                out.append(pad + "else:")
                out += render(s[2], ind + 1, r, read_target)
        elif k == "for":
            v = "v%d" % r.i
            if SHARED_ITERS[0]:
                out.append("%sfor %s in it%d:" % (pad, v, r.i))
            else:
                out.append("%sfor %s in It(%d):" % (pad, v, r.i))
            r.i += 1
            if read_target:
                out.append("%s    log('t', %s)" % (pad, v))
            out += render(s[1], ind + 1, r, read_target)
            if s[2]:
                out.append(pad + "else:")
                out += render(s[2], ind + 1, r, read_target)
    return out


def sk_str(b):
    parts = []
    for s in b:
        if s[0] in ("mark", "break", "continue", "return"):
            parts.append({"mark": "m", "break": "B", "continue": "C", "return": "R"}[s[0]])
        else:
            x = "%s(%s)" % (s[0][0], sk_str(s[1]))
            if s[2]:
                x += "e(%s)" % sk_str(s[2])
            parts.append(x)
    return "".join(parts)


def program(b, placement, read_target=False):
    r = _R()
    if placement == "module":
        body = render(b, 0, r, read_target)
        return "\n".join(body) + "\nmark(99)\n", r
    if placement == "function":
        body = render(b, 1, r, read_target)
        return "def f():\n" + "\n".join(body) + "\nlog('res', f())\nmark(99)\n", r
    if placement == "class":
        body = render(b, 1, r, read_target)
        return "class K:\n" + "\n".join(body) + "\nmark(99)\n", r
    if placement == "def_in_loop":
        # a function defined (and called) inside a loop body: return must not touch the outer loop
        body = render(b, 2, r, read_target)
        return (
            "for w in It(%d):\n    def f():\n" % r.i + "\n".join(body) + "\n    log('res', f())\n    mark(98)\nelse:\n    mark(97)\nmark(99)\n",
            r,
        )
    if placement == "method":
        body = render(b, 2, r, read_target)
        return "class K:\n    def f(self):\n" + "\n".join(body) + "\nlog('res', K().f())\nmark(99)\n", r
    raise ValueError(placement)


PLACEMENTS = {
    "module": (False, False),
    "function": (False, True),
    "class": (False, False),
    "def_in_loop": (False, True),
    "method": (False, True),
}


def universe(size, depth=3, placements=("module", "function", "class")):
    """yield (descriptor, source, n_conditions, n_iterables)"""
    for pl in placements:
        in_loop, in_func = PLACEMENTS[pl]
        for b in blocks(size, depth, in_loop, in_func):
            src, r = program(b, pl)
            yield ("C05:%s:%s" % (pl, sk_str(b)), src, r.c, r.i + (1 if pl == "def_in_loop" else 0))


def decorated(size, depth=3):
    """loop-variable reads inside the body (for skeletons containing a for loop)"""
    for pl in ("module", "function"):
        in_loop, in_func = PLACEMENTS[pl]
        for b in blocks(size, depth, in_loop, in_func):
            if has_kind(b, ("for",)):
                src, r = program(b, pl, read_target=True)
                yield ("C05:%s+readtarget:%s" % (pl, sk_str(b)), src, r.c, r.i)


M = ("mark",)
CONTEXTS = {
    # name: (builder(inner block) -> block, hole is inside a loop?)
    "f[H]": (lambda b: (("for", b, ()),), True),
    "w[H]": (lambda b: (("while", b, ()),), True),
    "f[m]e[H]": (lambda b: (("for", (M,), b),), False),
    "w[m]e[H]": (lambda b: (("while", (M,), b),), False),
    "f[f[m]e[H]]": (lambda b: (("for", (("for", (M,), b),), ()),), True),
    "f[w[m]e[H]]": (lambda b: (("for", (("while", (M,), b),), ()),), True),
    "w[f[m]e[H]]": (lambda b: (("while", (("for", (M,), b),), ()),), True),
    "w[w[m]e[H]]": (lambda b: (("while", (("while", (M,), b),), ()),), True),
    "f[f[m]e[H]m]e[m]": (lambda b: (("for", (("for", (M,), b), M), (M,)),), True),
    "f[i[H]m]e[m]": (lambda b: (("for", (("if", b, ()), M), (M,)),), True),
    "f[i[m]e[H]]": (lambda b: (("for", (("if", (M,), b),), ()),), True),
    "w[i[H]m]e[m]": (lambda b: (("while", (("if", b, ()), M), (M,)),), True),
    "f[f[H]]": (lambda b: (("for", (("for", b, ()),), ()),), True),
    "f[f[H]e[m]m]": (lambda b: (("for", (("for", b, (M,)), M), ()),), True),
    "w[f[H]e[m]]e[m]": (lambda b: (("while", (("for", b, (M,)),), (M,)),), True),
    "f[w[H]m]": (lambda b: (("for", (("while", b, ()), M), ()),), True),
    "i[f[H]e[m]]e[m]": (lambda b: (("if", (("for", b, (M,)),), (M,)),), True),
    "f[f[f[H]]]": (lambda b: (("for", (("for", (("for", b, ()),), ()),), ()),), True),
    "f[i[i[H]]m]": (lambda b: (("for", (("if", (("if", b, ()),), ()), M), ()),), True),
    # two loops that both use their "interrupted" state: the inner loop (hole + a statement after it)
    # is followed by an interrupt of the outer loop and a further statement
    "f[f[Hm]i[B]m]e[m]": (lambda b: (("for", (("for", b + (M,), ()), ("if", (("break",),), ()), M), (M,)),), True),
    "w[w[Hm]i[C]m]e[m]": (lambda b: (("while", (("while", b + (M,), ()), ("if", (("continue",),), ()), M), (M,)),), True),
    "f[w[Hm]e[i[B]m]m]": (lambda b: (("for", (("while", b + (M,), (("if", (("break",),), ()), M)), M), ()),), True),
    "w[f[Hm]i[B]m]": (lambda b: (("while", (("for", b + (M,), ()), ("if", (("break",),), ()), M), ()),), True),
    "f[i[C]f[Hm]m]": (lambda b: (("for", (("if", (("continue",),), ()), ("for", b + (M,), ()), M), ()),), True),
    "f[Hm]w[Hm]": (lambda b: (("for", b + (M,), ()), ("while", b + (M,), ())), True),
    # a loop L whose else ENDS in an interrupt and whose only break sits in the else of a loop nested
    # in L (hole), followed by a statement; inside an outer loop, or with return in a function
    "w[f[w[m]e[H]]e[C]m]e[m]": (lambda b: (("while", (("for", (("while", (M,), b),), (("continue",),)), M), (M,)),), True),
    "f[w[f[m]e[H]]e[B]m]m": (lambda b: (("for", (("while", (("for", (M,), b),), (("break",),)), M), ()), M), True),
    "f[f[f[m]e[H]]e[C]m]": (lambda b: (("for", (("for", (("for", (M,), b),), (("continue",),)), M), ()),), True),
    "f[w[i[m]e[H]]e[C]m]": (lambda b: (("for", (("while", (("if", (M,), b),), (("continue",),)), M), ()),), True),
    "F:f[w[m]e[H]]e[R]m": (lambda b: (("for", (("while", (M,), b),), (("return",),)), M), True),
    "F:w[f[m]e[H]m]e[R]m": (lambda b: (("while", (("for", (M,), b), M), (("return",),)), M), True),
    "i[H]": (lambda b: (("if", b, ()),), False),
    "i[m]e[H]m": (lambda b: (("if", (M,), b), M), False),
}


def composed(inner_max=3, placements=("module", "function", "class", "method")):
    """deeper nests: every inner block of size <= inner_max spliced into every context"""
    for pl in placements:
        _, in_func = PLACEMENTS[pl]
        for cname, (build, hole_in_loop) in CONTEXTS.items():
            if cname.startswith("F:") and not in_func:
                continue  # the context itself contains a return
            for size in range(1, inner_max + 1):
                for b in blocks(size, 2, hole_in_loop, in_func):
                    if not has_kind(b, ("break", "continue", "return")):
                        continue  # interrupt-free inner blocks add nothing beyond the plain universe
                    full = build(b)
                    src, r = program(full, pl)
                    yield ("C05:%s:ctx:%s<%s>" % (pl, cname, sk_str(b)), src, r.c, r.i)


def bare_returns(size, depth=3):
    """function-level skeletons containing a return, rendered with BARE returns"""
    for pl in ("function", "method"):
        in_loop, in_func = PLACEMENTS[pl]
        for b in blocks(size, depth, in_loop, in_func):
            if has_kind(b, ("return",)):
                BARE_RETURN[0] = True
                try:
                    src, r = program(b, pl)
                finally:
                    BARE_RETURN[0] = False
                yield ("C05:%s+barereturn:%s" % (pl, sk_str(b)), src, r.c, r.i)


def resumed(size, depth=3):
    """skeletons with a for loop and an interrupt, the loops running over NAMED iterator objects
    that are created before the skeleton and read to the end after it: an iterator must not be
    advanced, closed or replaced by the lowering of break/return"""
    for pl in ("module", "function"):
        in_loop, in_func = PLACEMENTS[pl]
        for b in blocks(size, depth, in_loop, in_func):
            if not (has_kind(b, ("for",)) and has_kind(b, ("break", "return", "continue"))):
                continue
            SHARED_ITERS[0] = True
            try:
                src, r = program(b, pl)
            finally:
                SHARED_ITERS[0] = False
            head = "".join("it%d = It(%d)\n" % (j, j) for j in range(r.i))
            tail = "".join("log('rest', %d, [q for q in it%d])\n" % (j, j) for j in range(r.i))
            assert src.endswith("mark(99)\n")
            yield ("C05:%s+resumed:%s" % (pl, sk_str(b)), head + src[: -len("mark(99)\n")] + tail + "mark(99)\n", r.c, r.i)


def count_kind(b, kind):
    n = 0
    for s in b:
        if s[0] == kind:
            n += 1
        elif s[0] in ("if", "while", "for"):
            n += count_kind(s[1], kind) + count_kind(s[2], kind)
    return n


def mixed_returns(size, depth=3):
    """function-level skeletons with at least two returns: every proper, non-empty subset of the
    returns rendered bare (a bare and a valued return in one function)"""
    for pl in ("function", "method"):
        in_loop, in_func = PLACEMENTS[pl]
        for b in blocks(size, depth, in_loop, in_func):
            n = count_kind(b, "return")
            if n < 2:
                continue
            for mask in range(1, 2**n - 1):
                RETURN_MASK[0] = mask
                try:
                    src, r = program(b, pl)
                finally:
                    RETURN_MASK[0] = None
                yield ("C05:%s+returnmask%d:%s" % (pl, mask, sk_str(b)), src, r.c, r.i)


def padded(size, depth=3, placements=("module", "function", "class")):
    """every skeleton with a statement that lowers to NOTHING (annotation without value, global
    declaration) or to a constant (pass, a constant expression) before every statement: a block of
    two source statements is then a single lowered expression"""
    for kind in PAD_STMTS:
        for pl in placements:
            in_loop, in_func = PLACEMENTS[pl]
            for b in blocks(size, depth, in_loop, in_func):
                PAD[0] = kind
                try:
                    src, r = program(b, pl)
                finally:
                    PAD[0] = None
                yield ("C05:%s+pad_%s:%s" % (pl, kind, sk_str(b)), src, r.c, r.i)


EXTRA = {
    # elif chains, dead code after an interrupt (must not run), nested function returns
    "C05:extra:elif3": "if cond(0):\n    mark(0)\nelif cond(1):\n    mark(1)\nelif cond(2):\n    mark(2)\nelse:\n    mark(3)\nmark(99)\n",
    "C05:extra:elif_in_loop_break": "for v0 in It(0):\n    if cond(0):\n        mark(0)\n    elif cond(1):\n        break\n    elif cond(2):\n        continue\n    else:\n        mark(1)\n    mark(2)\nelse:\n    mark(3)\nmark(99)\n",
    "C05:extra:dead_after_break": "for v0 in It(0):\n    mark(0)\n    break\n    mark(1)\nelse:\n    mark(2)\nmark(99)\n",
    "C05:extra:dead_after_continue": "while cond(0):\n    mark(0)\n    continue\n    mark(1)\nmark(99)\n",
    "C05:extra:dead_after_return": "def f():\n    mark(0)\n    return 5\n    mark(1)\nlog('res', f())\nmark(99)\n",
    "C05:extra:return_value_expr": "def f(n):\n    for v0 in It(0):\n        if cond(0):\n            return (v0, n)\n        mark(0)\n    else:\n        return ('else', n)\n    mark(1)\nlog('res', f(7))\nmark(99)\n",
    "C05:extra:return_none_bare": "def f():\n    while cond(0):\n        if cond(1):\n            return\n        mark(0)\n    mark(1)\nlog('res', f())\nmark(99)\n",
    "C05:extra:nested_function_return": "def f():\n    def g():\n        for v0 in It(0):\n            if cond(0):\n                return 1\n            mark(0)\n        return 2\n    x = g()\n    mark(1)\n    if cond(1):\n        return (x, 3)\n    mark(2)\n    return (x, 4)\nlog('res', f())\nmark(99)\n",
    "C05:extra:three_loops_return": "def f():\n    for v0 in It(0):\n        while cond(0):\n            for v1 in It(1):\n                if cond(1):\n                    return 1\n                mark(0)\n            else:\n                mark(1)\n            mark(2)\n        else:\n            mark(3)\n        mark(4)\n    else:\n        mark(5)\n    mark(6)\nlog('res', f())\nmark(99)\n",
    "C05:extra:break_inner_only": "for v0 in It(0):\n    for v1 in It(1):\n        if cond(0):\n            break\n        mark(0)\n    else:\n        mark(1)\n    mark(2)\nelse:\n    mark(3)\nmark(99)\n",
    "C05:extra:while_else_break_continue": "while cond(0):\n    if cond(1):\n        continue\n    if cond(2):\n        break\n    mark(0)\nelse:\n    mark(1)\nmark(99)\n",
    "C05:extra:iterable_evaluated_once": "for v0 in probe(0, It(0)):\n    if cond(0):\n        break\n    mark(0)\nmark(99)\n",
    "C05:extra:class_body_loop_in_function": "def f():\n    class K:\n        for v0 in It(0):\n            if cond(0):\n                break\n            mark(0)\n        else:\n            mark(1)\n    mark(2)\n    return 3\nlog('res', f())\nmark(99)\n",
}


def extras():
    for d, src in EXTRA.items():
        yield (d, src, src.count("cond("), src.count("It("))
