"""C11 family: every parameter-list shape with 0-2 positional-only, 0-2 regular, optional *args,
0-2 keyword-only, optional **kw and every legal default mask (756 shapes); the body returns all
parameters.  Call shapes are symbolic (see rt.hook_call_f)."""
import itertools


def shapes():
    for npo in range(3):
        for nreg in range(3):
            for var in (0, 1):
                for nkw in range(3):
                    for kwa in (0, 1):
                        npos = npo + nreg
                        # defaults for positionals: a suffix of the positional parameters
                        for ndef in range(npos + 1):
                            for kwmask in range(1 << nkw):
                                yield (npo, nreg, var, nkw, kwa, ndef, kwmask)


def render(shape, annotate=False):
    npo, nreg, var, nkw, kwa, ndef, kwmask = shape
    names = []
    parts = []
    vi = 0
    pos_names = ["p%d" % i for i in range(npo)] + ["r%d" % i for i in range(nreg)]
    npos = len(pos_names)
    for i, n in enumerate(pos_names):
        s = n + (": int" if annotate else "")
        if i >= npos - ndef:
            s += (" = " if annotate else "=") + "V[%d]" % vi
            vi += 1
        parts.append(s)
        names.append(n)
        if i == npo - 1:
            parts.append("/")
    if var:
        parts.append("*va")
    elif nkw:
        parts.append("*")
    kw_names = ["k%d" % i for i in range(nkw)]
    for i, n in enumerate(kw_names):
        s = n + (": int" if annotate else "")
        if kwmask >> i & 1:
            s += (" = " if annotate else "=") + "V[%d]" % vi
            vi += 1
        parts.append(s)
        names.append(n)
    if kwa:
        parts.append("**kwa")
    ret = list(names)
    if var:
        ret.append("va")
    if kwa:
        ret.append("sorted(kwa.items())")
    sig = ", ".join(parts)
    body = "    return (%s)" % (", ".join(ret) + ("," if len(ret) == 1 else ""))
    src = "def f(%s)%s:\n%s\n" % (sig, " -> int" if annotate else "", body)
    return src, names, npos, vi


def shape_desc(shape):
    return "po%d.r%d.v%d.k%d.kw%d.d%d.m%d" % shape


def kwsets(names, tier):
    """keyword subsets of the call battery (names of all parameters + one unknown)"""
    pool = list(names) + ["zz"]
    sets = [()]
    sets += [(n,) for n in pool]
    if tier == "quick":
        if len(names) >= 2:
            sets.append((names[0], names[-1]))
            sets.append((names[-1], "zz"))
        return sets
    for k in range(2, len(pool) + 1):
        for c in itertools.combinations(pool, k):
            sets.append(c)
    return sets[:96]


PLACEMENT_TEMPLATES = {
    # the function under test is created in another scope; defaults read the defining scope
    "nested": "def outer(w):\n    d = w + 1\n    def f(x, y=d, *a, z=w, **k):\n        return (x, y, a, z, sorted(k.items()), d)\n    return f\nf = outer(V[0])\n",
    "method": "class K:\n    d = V[0]\n    def m(self, x, y=d, *a, z=d, **k):\n        return (x, y, a, z, sorted(k.items()))\nf = K().m\n",
    "staticmethod": "class K:\n    @staticmethod\n    def m(x, /, y=V[0], *, z=V[1]):\n        return (x, y, z)\nf = K.m\n",
    "classmethod": "class K:\n    @classmethod\n    def m(cls, x, y=V[0], **k):\n        return (cls.__name__, x, y, sorted(k.items()))\nf = K.m\n",
    "lambda": "f = lambda x, y=V[0], /, *a, z=V[1], **k: (x, y, a, z, sorted(k.items()))\n",
    "decorated": "def deco(g):\n    def w(*a, **k):\n        return ('w', g(*a, **k))\n    return w\n@deco\ndef f(x, y=V[0], *, z=V[1]):\n    return (x, y, z)\n",
    "noreturn": "def f(x, y=V[0]):\n    x + y\n",
    "conditional_return": "def f(x, y=V[0], *a):\n    if x > y:\n        return (x, a)\n    for i in a:\n        if i == y:\n            return i\n",
    "default_mutable_once": "def f(x, acc=[]):\n    acc.append(x)\n    return list(acc)\nf(V[0])\n",
    "recursive": "def f(n, acc=V[0]):\n    if n <= 0:\n        return acc\n    return f(n - 1, acc + n)\n",
}
PLACEMENT_NAMES = {
    "nested": (["x", "y", "z"], 2),
    "method": (["x", "y", "z", "self"], 2),
    "staticmethod": (["x", "y", "z"], 2),
    "classmethod": (["x", "y", "cls"], 2),
    "lambda": (["x", "y", "z"], 2),
    "decorated": (["x", "y", "z"], 2),
    "noreturn": (["x", "y"], 2),
    "conditional_return": (["x", "y"], 2),
    "default_mutable_once": (["x", "acc"], 2),
    "recursive": (["n", "acc"], 2),
}


# ------------------------------------------------------------------------------------------------
# defaults that read a variable with the SAME spelling as a parameter (`lambda *, z=z: ...`): the
# default belongs to the DEFINING scope, the parameter to the function.  Function kind x which
# defaults x how the defining scope stores the variable (seeded change c11f: keyword-only defaults
# of a lambda were resolved after the lambda's parameters had been pushed).
# ------------------------------------------------------------------------------------------------
def _same_default_templates():
    sigs = {
        "both": ("x, y=y, *a, z=z, **k", "(x, y, a, z, sorted(k.items()))"),
        "kwonly": ("x, *a, z=z, **k", "(x, a, z, sorted(k.items()))"),
        "pos": ("x, y=y, *a, **k", "(x, y, a, sorted(k.items()))"),
        "kwonly_expr": ("x, *, z=z + y, y=y * 2", "(x, y, z)"),
    }
    for sk, (sig, ret) in sigs.items():
        for kind in ("lambda", "def"):
            for scope in ("module", "local", "captured", "param_captured", "class", "class_in_function"):
                static = scope.startswith("class")
                if kind == "lambda":
                    d = ["f = %s(lambda %s: %s)" % ("staticmethod" if static else "", sig, ret)]
                else:
                    d = (["@staticmethod"] if static else []) + ["def f(%s):" % sig, "    return %s" % ret]
                ind = lambda ls: ["    " + l for l in ls]
                bump = ["def bump():", "    nonlocal y, z", "    y += 10", "    z += 20", "bump()"]
                if scope == "module":
                    ls = ["y = V[0]", "z = V[1]"] + d
                elif scope == "local":
                    ls = ["def outer():"] + ind(["y = V[0]", "z = V[1]"] + d + ["return f"]) + ["f = outer()"]
                elif scope == "captured":
                    ls = ["def outer():"] + ind(["y = V[0]", "z = V[1]"] + bump + d + ["bump()", "return f"]) + ["f = outer()"]
                elif scope == "param_captured":
                    ls = ["def outer(y, z):"] + ind(bump + d + ["bump()", "return f"]) + ["f = outer(V[0], V[1])"]
                elif scope == "class":
                    ls = ["class K:"] + ind(["y = V[0]", "z = V[1]"] + d) + ["f = K.f"]
                else:
                    ls = ["def outer(y):"] + ind(["z = V[1]", "def rd():", "    return y + z", "class K:"] + ind(["z = z + 1" if False else "w = rd()"] + d) + ["return K.f"]) + ["f = outer(V[0])"]
                names = [n for n in ("x", "y", "z") if (n + "=") in sig or n == "x"]
                yield "samedefault_%s_%s_%s" % (sk, kind, scope), "\n".join(ls) + "\n", (names, 2)


for _n, _src, _names in _same_default_templates():
    PLACEMENT_TEMPLATES[_n] = _src
    PLACEMENT_NAMES[_n] = _names
