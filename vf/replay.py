"""Concrete replay of a counterexample in a fresh interpreter, without CrossHair, with the real
print (captured) -- the property's own observables: stdout text, trace of helper calls, final user
globals.  Usage: python -m vf.replay RECORD.json   (prints one JSON line; exit 1 if reproduced)"""
import io
import json
import sys

from . import rt


def reconvert(rec):
    """convert rec['src'] with the tree under test for the first recorded configuration"""
    import random

    from . import common

    ol = common.import_repo()
    from oneliner.config import Configs

    u, w, i = rec["configs"][0].split("/")
    c = Configs()
    c.unparser = u
    c.expr_wrapper = w
    c.if_style = i
    random.seed(0)
    return ol.convert_code_string(rec["src"], configs=c)


def replay_sce(rec):
    if not rec.get("use_recorded_out"):
        try:
            rec = dict(rec, out=reconvert(rec))
            compile(rec["out"], "<converted>", "eval")
        except Exception as e:
            return {"reproduced": True, "divergence": "rejected-or-compile-error:%s" % type(e).__name__}
    ob = rt.Obligation({"oid": "replay", "src": rec["src"], "out": rec["out"], "observe": rec.get("observe", "trace+globals"), "budget": rec.get("budget", 60), "hook": rec.get("hook"), "meta": rec.get("meta"), "ignore_globals": rec.get("ignore_globals")})
    inputs = rec["inputs"] or {}
    outs = []
    sides = []
    for code, mode in ((ob.src_code, "exec"), (ob.out_code, "eval")):
        buf = io.StringIO()

        def real_print(*a, **kw):
            if "file" not in kw:
                kw["file"] = buf
            print(*a, **kw)

        src_keys = None
        if mode == "eval":
            src_keys = set(n for n, _ in sides[0][0][2]) if sides[0][0][0] == "ok" and sides[0][0][2] != ("stopped",) else set()
        r = rt.run_side(code, mode, dict(inputs), ob.observe, ob.budget, src_keys, real_print, None, ob.hook, ob.meta, ob.ignore)
        sides.append(r)
        outs.append(buf.getvalue())
    a, b = sides[0][0], sides[1][0]
    if a[0] == "raised":
        return {"reproduced": False, "note": "source raises %s for these inputs (outside the fragment)" % a[1]}
    div = None
    if b[0] == "raised":
        div = "converted-raises:%s" % b[1]
    elif outs[0] != outs[1] or a[1] != b[1]:
        div = "trace-diff"
    else:
        ka = [n for n, _ in a[2]] if a[2] != ("stopped",) else []
        kb = [n for n, _ in b[2]] if b[2] != ("stopped",) else []
        if ka != kb:
            div = "globals-missing" if set(ka) - set(kb) else "globals-extra"
        elif a[2] != b[2]:
            div = "globals-diff"
        elif a[3] != b[3]:
            div = "call-diff"
    return {
        "reproduced": div is not None,
        "divergence": div,
        "stdout_source": outs[0][:2000],
        "stdout_converted": outs[1][:2000],
        "a": repr(a)[:3000],
        "b": repr(b)[:3000],
    }


def main(argv):
    with open(argv[1]) as f:
        rec = json.load(f)
    kind = rec.get("kind", "sce")
    if kind == "sce":
        if rec.get("inputs") is None and not rec.get("use_recorded_out"):
            # conversion-level divergence (rejection / text that is not an expression)
            from . import replay_conv

            r = replay_conv.replay(rec)
        else:
            r = replay_sce(rec)
    else:
        import importlib

        mod = importlib.import_module("vf.checks.%s" % rec["property"].lower())
        r = mod.replay(rec)
    print(json.dumps(r, default=str))
    return 1 if r.get("reproduced") else 0


if __name__ == "__main__":
    sys.exit(main(sys.argv))
