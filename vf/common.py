"""Shared plumbing: paths, import of the tree under test, known findings, evidence, reporting."""
import hashlib
import json
import os
import shutil
import sys
import tempfile
import time

VERIF = os.path.dirname(os.path.dirname(os.path.abspath(__file__)))
REPO = os.environ.get("ONELINER_VERIF_REPO", "/repo")
EVIDENCE_DIR = os.path.join(VERIF, "evidence")
REPLAY_DIR = os.path.join(EVIDENCE_DIR, "replays")
KNOWN_FILE = os.path.join(VERIF, "known_findings.json")
GUARD = "ONELINER_PY_VERIF"

EXIT_OK = 0
EXIT_VIOLATION = 1
EXIT_HARNESS = 3

SEM_CONFIGS = [
    ("chain_call", "if_expr"),
    ("chain_call", "short_circuit"),
    ("list", "if_expr"),
    ("list", "short_circuit"),
]
UNPARSERS = ["ast.unparse", "oneliner"]


def seed():
    try:
        return int(os.environ.get("VERIF_SEED", "0"))
    except ValueError:
        return 0


def import_repo():
    """Import `oneliner` from the tree under test and assert that it really comes from there."""
    os.environ[GUARD] = "1"
    if sys.path[0] != REPO:
        sys.path.insert(0, REPO)
    for m in [m for m in sys.modules if m == "oneliner" or m.startswith("oneliner.")]:
        del sys.modules[m]
    import oneliner

    f = os.path.realpath(oneliner.__file__)
    if not f.startswith(os.path.realpath(REPO) + os.sep):
        raise SystemExit("harness error: oneliner imported from %s, not from %s" % (f, REPO))
    return oneliner


def repo_fingerprint():
    h = hashlib.sha256()
    root = os.path.join(REPO, "oneliner")
    for dp, dn, fn in sorted(os.walk(root)):
        dn.sort()
        for f in sorted(fn):
            if f.endswith(".py"):
                p = os.path.join(dp, f)
                h.update(p.encode())
                with open(p, "rb") as fh:
                    h.update(fh.read())
    return h.hexdigest()[:16]


class Workdir:
    """Scratch directory outside /repo and /verif, removed when the check ends."""

    def __init__(self, tag):
        self.path = tempfile.mkdtemp(prefix="olverif-%s-" % tag)

    def __enter__(self):
        return self.path

    def __exit__(self, *a):
        if not os.environ.get("VERIF_KEEP_WORK"):
            shutil.rmtree(self.path, ignore_errors=True)
        return False


# ------------------------------------------------------------------------------------------------
# known findings
# ------------------------------------------------------------------------------------------------
class Known:
    def __init__(self, prop):
        self.prop = prop
        self.entries = []
        self.fixed = []
        if os.path.exists(KNOWN_FILE):
            with open(KNOWN_FILE) as f:
                data = json.load(f)
            for e in data.get("findings", []):
                if e.get("property") != prop:
                    continue
                if e.get("status") == "open":
                    self.entries.append(e)
            self.fixed = [x for x in data.get("fixed", []) if ("property=%s " % prop) in x]
        self.hits = {e["id"]: 0 for e in self.entries}
        self._index = {}
        for e in self.entries:
            inputs = list(e.get("inputs", []))
            if e.get("inputs_file"):
                # long explicit lists of failing inputs live in their own committed file
                fp = os.path.join(VERIF, e["inputs_file"])
                if os.path.exists(fp):
                    with open(fp) as f:
                        inputs += [l.rstrip("\n") for l in f if l.strip()]
            for d in inputs:
                self._index.setdefault(d, []).append(e)

    def match(self, descriptor, config=None, host=None, divergence=None, count=True):
        """Return the entry that lists exactly this input (descriptor), configuration, host and
        divergence class -- or None.  Messages, temp names and texts are never matched."""
        for e in self._index.get(descriptor, []):
            if not _sel(e.get("configs", "*"), config):
                continue
            if not _sel(e.get("hosts", "*"), host):
                continue
            dv = e.get("divergence", "*")
            if dv != "*" and divergence is not None and divergence not in dv:
                continue
            if count:
                self.hits[e["id"]] += 1
            return e
        return None


def _sel(spec, value):
    if spec == "*" or value is None:
        return True
    return value in spec


# ------------------------------------------------------------------------------------------------
# reporting
# ------------------------------------------------------------------------------------------------
class Report:
    def __init__(self, prop, tier, level):
        self.prop = prop
        self.tier = tier
        self.level = level
        self.t0 = time.time()
        self.violations = []
        self.known_lines = []
        self.notes = []
        self.coverage = {}
        self.assumptions = []
        self.harness_errors = []
        os.makedirs(REPLAY_DIR, exist_ok=True)
        # replays of earlier runs of this property are stale
        for f in os.listdir(REPLAY_DIR):
            if f.startswith(prop + "-"):
                try:
                    os.remove(os.path.join(REPLAY_DIR, f))
                except OSError:
                    pass

    def replay_path(self, n):
        return os.path.join(REPLAY_DIR, "%s-%03d.json" % (self.prop, n))

    def violation(self, record):
        n = len(self.violations)
        p = self.replay_path(n)
        with open(p, "w") as f:
            json.dump(record, f, indent=1, default=str)
        self.violations.append(p)
        print("VIOLATION property=%s replay=%s" % (self.prop, p), flush=True)
        what = record.get("what") or record.get("descriptor")
        if what:
            print("  " + str(what)[:300], flush=True)

    def known(self, text):
        line = "KNOWN-FINDING: property=%s %s" % (self.prop, text)
        self.known_lines.append(line)
        print(line, flush=True)

    def note(self, text):
        self.notes.append(text)
        print("note: " + text, flush=True)

    def harness_error(self, text):
        self.harness_errors.append(text)
        print("HARNESS-ERROR: " + text, flush=True)

    def finish(self):
        ev = {
            "property_id": self.prop,
            "tier": self.tier,
            "seed": seed(),
            "level": self.level,
            "coverage": self.coverage,
            "assumptions": self.assumptions,
            "wall_s": round(time.time() - self.t0, 2),
            "violations": len(self.violations),
        }
        ev["coverage"].setdefault("known_findings_reported", self.known_lines)
        ev["coverage"].setdefault("notes", self.notes)
        ev["coverage"].setdefault("repo_fingerprint", repo_fingerprint())
        os.makedirs(EVIDENCE_DIR, exist_ok=True)
        with open(os.path.join(EVIDENCE_DIR, self.prop + ".json"), "w") as f:
            json.dump(ev, f, indent=1, default=str)
        if self.harness_errors:
            print("RESULT %s: harness error(s): %d" % (self.prop, len(self.harness_errors)))
            return EXIT_HARNESS
        if self.violations:
            print("RESULT %s: %d violation(s)" % (self.prop, len(self.violations)))
            return EXIT_VIOLATION
        print("RESULT %s: ok (%.1fs)" % (self.prop, time.time() - self.t0))
        return EXIT_OK
