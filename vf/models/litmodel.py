"""Reference decoder of the string-literal language the unparser emits, written in plain Python so
that CrossHair can execute it symbolically.  It only has to understand what the unparser emits;
it is validated against the real parser on the unparser's own text at check start."""
HEX = "0123456789abcdef"


def hexval(c):
    o = ord(c)
    if 48 <= o <= 57:
        return o - 48
    if 97 <= o <= 102:
        return o - 87
    return -1


def decode(t, qm):
    """body of a non-raw string literal delimited by qm -> value, or None if malformed / uses an
    escape the unparser is not expected to emit (octal, \\N{}, lone backslash, raw line break)"""
    out = []
    i = 0
    n = len(t)
    while i < n:
        c = t[i]
        if c == qm or c == "\n" or c == "\r":
            return None
        if c != "\\":
            out.append(c)
            i += 1
            continue
        if i + 1 >= n:
            return None
        e = t[i + 1]
        if e == "\\" or e == "'" or e == '"':
            out.append(e)
            i += 2
        elif e == "n":
            out.append("\n")
            i += 2
        elif e == "r":
            out.append("\r")
            i += 2
        elif e == "t":
            out.append("\t")
            i += 2
        elif e == "x" or e == "u" or e == "U":
            k = 2 if e == "x" else (4 if e == "u" else 8)
            if i + 2 + k > n:
                return None
            v = 0
            for j in range(k):
                h = hexval(t[i + 2 + j])
                if h < 0:
                    return None
                v = v * 16 + h
            if v > 0x10FFFF:
                return None
            out.append(chr(v))
            i += 2 + k
        else:
            return None
    return "".join(out)


def scan_fstring(txt):
    """complete f-string literal text f'...' -> list of parts, part = ('lit', str) |
    ('field', expr_text, conversion char or None, spec parts or None); None when malformed"""
    if len(txt) < 3 or txt[0] != "f":
        return None
    q = txt[1]
    if q != "'" and q != '"':
        return None
    if txt[-1] != q:
        return None
    r = scan_parts(txt, 2, len(txt) - 1, q, False)
    if r is None:
        return None
    parts, end = r
    if end != len(txt) - 1:
        return None
    return parts


def scan_parts(t, i, n, q, in_spec):
    parts = []
    lit = []
    while i < n:
        c = t[i]
        if c == "{":
            if i + 1 < n and t[i + 1] == "{" and not in_spec:
                lit.append("{")
                i += 2
                continue
            if lit:
                d = decode("".join(lit), q)
                if d is None:
                    return None
                parts.append(("lit", d))
                lit = []
            r = scan_field(t, i + 1, n, q)
            if r is None:
                return None
            fld, i = r
            parts.append(fld)
            continue
        if c == "}":
            if in_spec:
                break
            if i + 1 < n and t[i + 1] == "}":
                lit.append("}")
                i += 2
                continue
            return None
        if c == "\\" and i + 1 < n:
            lit.append(c)
            lit.append(t[i + 1])
            i += 2
            continue
        lit.append(c)
        i += 1
    if lit:
        d = decode("".join(lit), q)
        if d is None:
            return None
        parts.append(("lit", d))
    return parts, i


def scan_field(t, i, n, q):
    depth = 0
    j = i
    sq = None
    while j < n:
        c = t[j]
        if sq is not None:
            if c == "\\":
                j += 2
                continue
            if c == sq:
                sq = None
            j += 1
            continue
        if c == "'" or c == '"':
            sq = c
            j += 1
            continue
        if c == "(" or c == "[" or c == "{":
            depth += 1
        elif c == ")" or c == "]" or c == "}":
            if depth == 0:
                if c == "}":
                    break
                return None
            depth -= 1
        elif depth == 0 and c == "!" and j + 1 < n and t[j + 1] != "=":
            break
        elif depth == 0 and c == ":":
            break
        j += 1
    if j >= n:
        return None
    expr = t[i:j]
    conv = None
    if t[j] == "!":
        conv = t[j + 1]
        j += 2
        if j >= n:
            return None
    spec = None
    if t[j] == ":":
        r = scan_parts(t, j + 1, n, q, True)
        if r is None:
            return None
        spec, j = r
        if j >= n:
            return None
    if t[j] != "}":
        return None
    return ("field", expr.strip(), conv, spec), j + 1
