"""Stub import system over an abstract package tree, used on BOTH sides of a co-execution: the
exec'd source reaches it through CPython's IMPORT_NAME/IMPORT_FROM byte-code (custom
__builtins__['__import__']), the converted text through __import__ and the stub `importlib` it
returns.  Implements the documented contract of __import__/import_module."""
import types

TREE = {
    # module name -> (is_package, attributes (name -> index into the value list V | constant))
    "top": (False, {"tv": 0}),
    "pkg": (True, {"pv": 1}),
    "pkg.sub": (True, {"sv": 2}),
    "pkg.sub.leaf": (False, {"lv": 3}),
    "pkg.other": (False, {"ov": 4}),
    "pkg.sub.sib": (False, {"bv": 5}),
}


class ImportStub:
    def __init__(self, ev, pre, other_is_attr, V):
        self.ev = ev
        self.modules = {}
        self.V = V
        self.other_is_attr = other_is_attr
        # pre-imported modules (already in "sys.modules" before the program runs).  The status of
        # a module is looked up lazily, when it is first needed: an environment bit that no import
        # of the program touches never forks a path.  A module can only be pre-imported if its
        # parent package is.
        self.pre = pre
        self.was_pre = {}
        importlib = types.ModuleType("importlib")
        importlib.import_module = self.import_module
        self.importlib = importlib

    def val(self, idx):
        return self.V[idx] if idx < len(self.V) else -1 - idx

    def load(self, name, quiet=False):
        if name in self.modules:
            return self.modules[name]
        if name == "importlib":
            return self.importlib
        parent = None
        if "." in name:
            parent = self.load(name.rsplit(".", 1)[0], quiet)
        if name not in TREE:
            raise ModuleNotFoundError("No module named %r" % name)
        if name == "pkg.other" and self.other_is_attr:
            # pkg.other is then NOT a submodule: pkg defines an attribute 'other' itself
            raise ModuleNotFoundError("No module named %r" % name)
        is_pkg, attrs = TREE[name]
        idx = list(TREE).index(name)
        pre_flag = True if (idx < len(self.pre) and self.pre[idx]) else False
        if parent is not None and not self.was_pre.get(name.rsplit(".", 1)[0], False):
            pre_flag = False
        self.was_pre[name] = pre_flag
        if pre_flag:
            quiet = True
        m = types.ModuleType(name)
        m.__package__ = name if is_pkg else (name.rsplit(".", 1)[0] if "." in name else "")
        if is_pkg:
            m.__path__ = []
        self.modules[name] = m
        if not quiet:
            self.ev(("exec", name))
        for a, idx in attrs.items():
            setattr(m, a, self.val(idx))
        if name == "pkg" and self.other_is_attr:
            m.other = ("attr-other", self.val(4))
        if parent is not None:
            setattr(parent, name.rsplit(".", 1)[1], m)
        return m

    def resolve(self, name, globals_, level):
        if level == 0:
            return name
        package = (globals_ or {}).get("__package__")
        if not package:
            raise ImportError("attempted relative import with no known parent package")
        bits = package.rsplit(".", level - 1)
        if len(bits) < level:
            raise ImportError("attempted relative import beyond top-level package")
        base = bits[0]
        return "%s.%s" % (base, name) if name else base

    def __import__(self, name, globals=None, locals=None, fromlist=(), level=0):
        if name == "importlib" and level == 0:
            return self.importlib
        if name in ("itertools",) and level == 0:
            import itertools

            return itertools
        abs_name = self.resolve(name, globals, level)
        m = self.load(abs_name)
        if not fromlist:
            if level == 0:
                return self.load(name.split(".")[0])
            # relative import without fromlist does not occur in Python source
            return m
        for x in fromlist:
            if x == "*":
                continue
            if not hasattr(m, x):
                try:
                    self.load(abs_name + "." + x)
                except ModuleNotFoundError:
                    pass
        return m

    def import_module(self, name, package=None):
        level = 0
        while level < len(name) and name[level] == ".":
            level += 1
        if level:
            abs_name = self.resolve(name[level:], {"__package__": package}, level)
        else:
            abs_name = name
        return self.load(abs_name)
