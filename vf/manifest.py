"""Generates /verif/MANIFEST.json from the table below (dev tool; run by hand after editing)."""
import json
import os

VERIF = os.path.dirname(os.path.dirname(os.path.abspath(__file__)))

CLAIMED = {
    "C05": dict(
        category="translation_validation",
        text="Every control-flow skeleton of a bounded-exhaustive family is converted by the real converter and then exec(source) and eval(converted) are co-executed symbolically: CrossHair/z3 decide, for every schedule of condition outcomes (<= 5/6) and every iterable length (0..2), that both produce the same trace of statement markers, condition evaluations, iter()/next() calls and the same return value. Bounded: the program dimension is an enumeration, the data dimension is decided by the solver.",
        design_ref="DESIGN.md section 4, C05",
        note="Trusted: CPython (exec/eval), CrossHair 0.0.110 + z3 (path exploration is exhaustive only when it says 'Confirmed over all paths'), the harness helpers mark/cond/It/log. Bounds: skeletons <= 4 nodes exhaustive at module/function/class level (thorough) / 5 nodes sampled, depth <= 3, schedule <= 6, <= 2 items per iterable; composed family (interrupt-containing blocks spliced into 33 deeper contexts, 14 686 programs, sampled), mixed bare/valued returns, padded skeletons (statements that lower to nothing), resumed iterators (named iterators with logging close/send/throw, drained after the skeleton).",
        technique="symbolic co-execution of source and converted text under CrossHair (z3), one PEP-316 condition per (skeleton, configuration)",
    ),
}

CLAIMED["C13"] = dict(
    category="translation_validation",
    text="Destructuring patterns (depth <= 3, star at every position) x source kinds, subscript/slice stores with symbolic bounds, and the matrix 13 operators x target kind x operand kind x placement are converted by the real converter; exec(source) and eval(converted) are co-executed under CrossHair with symbolic source length/elements/operands and the logged target values, alias identity, dunder-call order and container load/store counts must coincide.",
    design_ref="DESIGN.md section 4, C13",
    note="Trusted: CPython, CrossHair+z3, helper classes Box/UV injected on both sides. Bounds: source length min..min+3, patterns <= 6 leaves, slice bounds -3..3, concrete operands for float/bitwise operators (CrossHair inconclusive on those).",
    technique="symbolic co-execution of source and converted text under CrossHair (z3)",
)
CLAIMED["C07"] = dict(
    category="translation_validation",
    text="Statement templates in which every subexpression is a logging probe are converted by the real converter and co-executed symbolically with the source: the ordered probe log, container load/store events and logged values must coincide for every symbolic value that steers control (indices, truthiness).",
    design_ref="DESIGN.md section 4, C07",
    note="Trusted: CPython, CrossHair+z3, helper probe/Box injected on both sides. Bound: the template catalogue of vf/families/c07.py (exhaustive over statement forms and the 13 operators, not over expression shapes).",
    technique="symbolic co-execution with probe-instrumented statement templates under CrossHair (z3)",
)

CLAIMED["C01"] = dict(
    category="translation_validation",
    text="The 16 repository scripts, every feature of the catalogue alone, every ordered pair in sequence and every nested pair are converted by the real converter under the option combinations; exec(source) and eval(converted) are co-executed under CrossHair with symbolic ints a, b and a symbolic short string s; recorded print events and all final user globals must coincide, only __ol_* names / itertools / importlib may be added.",
    design_ref="DESIGN.md section 4, C01",
    note="Trusted: CPython, CrossHair+z3, the recording print stand-in (real print + stdout text on replay). Bounds: catalogue of vf/families/c01.py (2255 programs; quick tier: scripts + 41 singles + 170 seed-rotated pairs), strings <= 2 chars, small ranges for features that force realisation (f-string formatting, dict keys). Host = runtime = 3.12 (other interpreters: C15).",
    technique="symbolic co-execution of source and converted text under CrossHair (z3)",
)
CLAIMED["C11"] = dict(
    category="translation_validation",
    text="For every parameter-list shape (<= 2 parameters per kind, every legal default mask; 756 shapes) the def is converted by the real converter and a symbolic call battery (number of positionals, keyword subset incl. an unknown name, direct/star call, symbolic default values) is applied to the function objects of exec(source) and eval(converted): both must return the same bound values or both raise TypeError.",
    design_ref="DESIGN.md section 4, C11",
    note="Trusted: CPython's argument binding (both callables are real functions), CrossHair+z3. Bounds: quick = all shapes with <= 2 parameters + 170 seed-rotated shapes, <= 3 positionals, keyword subsets none/singles/two pairs; thorough = all 756 shapes, <= 5 positionals, all keyword subsets up to 96. Plus 58 placement templates (function created in another scope; 48 of them: defaults naming a variable spelled like a parameter, lambda/def x 4 signatures x 6 defining scopes). Annotations are metadata.",
    technique="symbolic call-shape battery over source and converted function objects under CrossHair (z3)",
)
CLAIMED["C12"] = dict(
    category="translation_validation",
    text="Class skeletons (header: bases x metaclass x class keyword x decorators x placement; members: 26 kinds incl. static/class methods, property, nested class, lambdas, comprehensions, body control flow, zero/two-argument super, __init_subclass__) are converted by the real converter and co-executed with the source under CrossHair with symbolic attribute values/arguments: canonical vars(cls), MRO, metaclass and every member called on an instance and a subclass must coincide.",
    design_ref="DESIGN.md section 4, C12",
    note="Trusted: CPython, CrossHair+z3 (contract enforcement switched off for the programs under test, see DESIGN 2.3). Bounds: 541 skeletons (every legal header with 3 rotating members, every member alone, every member pair with the default header); metadata (__doc__, __qualname__, __module__, implicit staticmethod wrapper of __new__) not compared.",
    technique="symbolic co-execution of source and converted text under CrossHair (z3)",
)

CLAIMED["C02"] = dict(
    category="other",
    text="Program-quantified obligation without a data dimension: family programs, out-of-fragment shape programs and standard-library modules with unsupported statements stripped are converted by the real converter under all 8 option combinations; whenever conversion returns, the text must contain no line break, compile in eval mode and (ast.unparse path) parse back to the emitted AST after removal of the newline. z3 decides the quantified statement over the table; each table entry is decided by CPython's compiler. The line-break obligation for arbitrary string contents is the C04 kernel.",
    design_ref="DESIGN.md section 4, C02",
    note="The deciding step of each entry is CPython 3.12's compile(), not the solver (stated in the evidence). Bounds: the program families of vf/checks/c02.py (incl. the slot product 69 expression slots x 34 expression kinds + 14 index slots x 16 index kinds x module/function/class, the identifier product 29 identifier positions x 19 spellings (keyword-normalising, soft keywords, non-ASCII) x module/function/class, and 39 scripts that parse but that CPython refuses to compile); stdlib modules <= 25 kB (quick) / 80 kB (thorough).",
    technique="table extracted by running the real converter + CPython compile(); z3 query over the table",
    engine="z3 (table query) + CPython compiler",
)
CLAIMED["C03"] = dict(
    category="other",
    text="E2: decision tables over the complete (slot x kind) catalogue (95 x 56) are re-extracted on every run by driving the real expr_unparse and CPython's parser; z3 decides that no valid composition is emitted as text that fails to parse back (RT), is wrongly bare (Q2) or wrongly parenthesised (Q3), synthesises an integer stratification of kinds and slots (Q1) and decides that the parenthesisation decision is exactly node precedence > slot precedence (Q4); the depth-3 table slot(slot(kind)) (95 x 95 x 56 compositions, ~180 000 valid) is built and decided exhaustively as well, because the depth-2 table does NOT lift to every depth where the context is lexical (f-string fields, a generator as sole call argument); node shapes (2493), seeded deep trees (depth 3-6, sampled) and the trees the converter emits are decided as table queries of the same form.",
    design_ref="DESIGN.md section 4, C03",
    note="Oracle of every table entry: CPython 3.12's parser. Beyond depth 3 the claim rests on the stratification (Q1/Q4, a corroborated assumption, not a proof -- see DESIGN section 12, round 3) and on the sampled deep trees and the emitted trees. Full-field comparison ignoring ctx/kind/positions.",
    technique="z3 over decision tables extracted from the real unparser (stratification synthesis + refinement queries)",
    engine="z3 (tables re-extracted from /repo on every run)",
)
CLAIMED["C04"] = dict(
    category="other",
    text="E1: the real get_unescaped_str/expr_unparse with ONE symbolic character (every code point, partitioned into chunks) in each literal position (plain constant, f-string literal before/after a field, format-spec literal, constant nested in a replacement field, dict key in a field, bytes); the emitted text is decoded by a reference decoder executed symbolically; postcondition: decodes to the same value, no raw CR/LF, no raw surrogate, self-delimiting (lifts to every length). Table queries (oracle: parser) for 3200 f-string structure shapes, constant class representatives incl. inf/nan/complex and standard-library literals.",
    design_ref="DESIGN.md section 4, C04",
    note="Stub: builtins.ascii replaced by a validated pure-Python model. Quick tier: planes 3-14 outside the bound of the escape kernel and position kernels bounded to latin-1-or-printable (thorough: full domain). Numbers/bytes go through C-level repr: concrete representatives.",
    technique="CrossHair (z3) on the real escaping/unparsing functions with a symbolic character + symbolic reference decoder; z3 table queries for structure",
)
CLAIMED["C08"] = dict(
    category="other",
    text="E1 selector slices over the real convert_code_string: every (host position x unsupported construct x configuration) cell of the injection space (26 statement hosts x 26 statement constructs, 33 expression hosts x 8 expression constructs), 36 illegal placements that parse but CPython refuses to compile, and legal near-misses that must be accepted. Every path is concrete after the selectors are picked; the solver contributes the exhaustiveness certificate per slice.",
    design_ref="DESIGN.md section 4, C08",
    note="No data dimension; oracle for illegal placements is CPython's compile(). README 'Limitations' is the list of unsupported constructs; the catalogue fails closed on unknown ast.stmt subclasses.",
    technique="CrossHair selector slices (exhaustive enumeration certificate) over the real converter",
)
CLAIMED["C09"] = dict(
    category="translation_validation",
    text="The finite matrix (risky identifier x role x converter feature): the identifier set is re-derived on every run from what the converter emits (plus the builtins the generated code calls and a control name); each cell is a small program converted by the real converter and co-executed with the source under CrossHair with symbolic stored values. Distinctness of __ol_ temporaries is checked on every output (real RNG).",
    design_ref="DESIGN.md section 4, C09",
    note="Bounds: 22 identifiers x 11 roles x 28 features x up to 5 access paths (direct / lambda / generator expression / nested def / lambda with a shadowing inner parameter) = 9 944 cells (quick: control cells + 1 000 seed-rotated); 408 nested / sequential pairs of the 16 constructs that introduce temporaries; 22 nests of two scopes with the SAME user name (functions directly / through a method / through an intermediate function, classes); suffix provenance (every random suffix of an output was drawn during that conversion). Known findings listed by explicit cell (builtins the generated code calls; __class__).",
    technique="symbolic co-execution of source and converted text under CrossHair (z3) over the capture matrix",
)
CLAIMED["C10"] = dict(
    category="model_checking",
    text="E1 on the real Configs/Cfg/convert_code_string: the API history (create options object, set option incl. illegal values, convert with object, convert without options, reseed random) is the symbolic variable; every history of length <= 3 (quick) / 4 (thorough) over the 27/31-action alphabet is explored; a ghost model predicts the option triple, conversions run concretely and are compared (alpha-normalised) with the same call made in fresh processes.",
    design_ref="DESIGN.md section 4, C10",
    note="Module state is made pristine at the start of every path by re-importing oneliner. Bounds: <= 2 options objects, 2/3 programs, 3 values per option, 3 conversions that are refused half-way; histories of length <= 3 over the full alphabet (quick and thorough), thorough also length <= 4 over the one-object sub-alphabet; the fresh-process reference of every entry is computed under 4 PYTHONHASHSEED values and must coincide.",
    technique="CrossHair (z3) exploration of symbolic API histories against a ghost model and a fresh-process reference table",
)
CLAIMED["C14"] = dict(
    category="translation_validation",
    text="24 import statement forms + every ordered pair of 10 single-alias items in one statement (91 forms) x 5 placements, plus 286 sequences of two import statements that bind the same name under control flow (first one conditional on a symbolic flag, if/else, rebinding in between, loops, a function called twice), are converted by the real converter; source and converted text are co-executed under CrossHair over a stub import system (same stub on both sides; the source reaches it through CPython's IMPORT_NAME/IMPORT_FROM byte-code) with a symbolic environment: which modules are already imported, attribute-vs-submodule, relative-import anchor, module attribute values. Order/count of module executions, identity and scope of bound names must coincide.",
    design_ref="DESIGN.md section 4, C14",
    note="The stub is validated against the real import system on a vendored on-disk copy of the tree in fresh subprocesses at check start.",
    technique="symbolic co-execution over a validated stub import system under CrossHair (z3)",
)
CLAIMED["C16"] = dict(
    category="other",
    text="E1 on the real oneliner/__main__.py source executed in-process with stubs for parse_args/open/print: free symbolic -C arguments (every string <= 4 chars; 'expr_wrapper=' + every value <= 4 chars; every name <= 3 chars + '=list') and selector slices over pools derived from the real options object (names x separators x values x {-o, stdout} x deprecated --unparser; pairs of -C options); reference: a CLI specification written without str.split; output compared with the library call.",
    design_ref="DESIGN.md section 4, C16",
    note="Plus the I/O kernel (8 input file kinds x 5 output situations incl. -o naming the input file x 5 option lists) over an in-memory file system with open-mode and buffering semantics, and the white-space kernel (3 options x 11 kinds of white space x 4 positions). Stub fidelity validated on 224 command lines / cells against the real CLI in subprocesses; every counterexample is replayed on the real CLI. argparse's own tokenisation is outside the claim.",
    technique="CrossHair (z3) on the real CLI script with symbolic option arguments",
)

CLAIMED["C06"] = dict(
    category="translation_validation",
    text="Scope trees (module + nested function/class/lambda/comprehension scopes, one role per scope for the tracked name from the complete role catalogue, every binding site storing a distinct symbolic value) are converted by the real converter and co-executed with the source under CrossHair: every read in every scope and the final globals must coincide for all values.",
    design_ref="DESIGN.md section 4, C06",
    note="Bounds: depth 1 exhaustive, depth-2 chains (15 330), two-children trees incl. nested expression scopes (4 818), a fixed pool of 6 000 depth-3 trees, enumerated declaration chains (3 180), may-not-bind roles (246 trees, the binding depends on a symbolic value), generator-expression renderings of every comprehension scope (6 132); programs CPython rejects/raises on are outside. No open known finding (the concrete sweep of all ~25 000 valid programs x 4 configurations is clean after the repairs). Programs that hit the CPython 3.12/3.13 comprehension-inlining leak are excluded (source itself misbehaves).",
    technique="symbolic co-execution of source and converted text under CrossHair (z3)",
)

CLAIMED["C15"] = dict(
    category="other",
    text="Partial, bounds stated: (1) z3 table queries over syntax tables - every text produced on hosts 3.10-3.13 by the custom unparser (complete (slot x kind) catalogue, 4 160 f-string shapes; on the main host also the depth-3 table slot(slot(kind)): quick 19 grammar-sensitive innermost kinds, thorough all) and by both unparsers for the converted programs x 8 options is compiled by each runtime binary 3.8-3.13 (sources restricted to what 3.8 compiles and to trees valid on the host); (2) concrete co-execution replays of every distinct converted text on each runtime binary (not solver-decided, labelled so); (3) CrossHair co-execution on the second interpreter it exists for (3.11) with text produced by a 3.11 host.",
    design_ref="DESIGN.md section 4, C15",
    note="The deciding step of the syntax tables is each interpreter's compile(); semantics on 3.8/3.9/3.10/3.13 only by concrete replays with 4 fixed valuations; 3.14 outside the bound. Known findings: ast.unparse quote re-use on 3.12+ hosts, nested f-string quote depth in the custom unparser (explicit rows).",
    technique="z3 queries over syntax tables built with the six interpreter binaries + CrossHair (z3) co-execution on 3.11 + concrete replays on the other runtimes",
    engine="z3 tables + crosshair(3.11) + interpreter binaries",
)

NOT_YET = {}

NOT_APPLICABLE = {
    "C17": "thresholds of C-stack/recursion limits at thousands of statements: program size cannot be made symbolic (ast.parse/symtable need concrete text) and the only deciding step would be concrete runs at growing N, a different technique; see DESIGN.md section 7",
}


def build():
    props = [json.loads(l)["id"] for l in open(os.path.join(VERIF, "properties.jsonl"))]
    checks = []
    na = []
    for p in props:
        if p in CLAIMED:
            c = CLAIMED[p]
            checks.append(
                {
                    "property_id": p,
                    "quick_cmd": "./check %s --tier quick" % p,
                    "thorough_cmd": "./check %s --tier thorough" % p,
                    "evidence_file": "evidence/%s.json" % p,
                    "replay_cmd_template": "./check %s --replay {path}" % p,
                    "engine": c.get("engine", "crosshair+z3"),
                    "level_claimed": {"category": c["category"], "text": c["text"], "design_ref": c["design_ref"]},
                    "level_note": c["note"],
                    "technique": c["technique"],
                }
            )
        elif p in NOT_APPLICABLE:
            na.append({"property_id": p, "reason": NOT_APPLICABLE[p]})
        else:
            na.append({"property_id": p, "reason": NOT_YET.get(p, "check not built yet in this session (planned, see DESIGN.md section 8); not claimed until its check runs clean")})
    m = {
        "version": 1,
        "setup_cmd": "/venv/bin/python vf/boot.py",
        "hooks": {
            "guard": "ONELINER_PY_VERIF",
            "enable": "no source hooks are needed: the checks import /repo's working tree directly (ONELINER_PY_VERIF=1 is exported by ./check but nothing in /repo reads it)",
            "baseline_off_cmd": "cd /repo && /venv/bin/python -m pytest -ra -q -p no:cacheprovider --timeout=900 --continue-on-collection-errors",
            "source_commits": [],
            "add_only": True,
        },
        "engines": [
            {
                "name": "crosshair+z3",
                "path": "vf/chrun.py",
                "serves_properties": sorted(CLAIMED),
                "kind_free_text": "CrossHair 0.0.110 symbolic execution of the real Python objects (z3 decides every branch); verdict per PEP-316 condition; harness files regenerated from /repo on every run",
            }
        ],
        "checks": checks,
        "not_applicable": na,
        "notes": "Known findings: known_findings.json (static, never written by checks). Design: DESIGN.md.",
    }
    with open(os.path.join(VERIF, "MANIFEST.json"), "w") as f:
        json.dump(m, f, indent=1)
    return m


if __name__ == "__main__":
    m = build()
    import jsonschema

    jsonschema.validate(m, json.load(open("/root/.vp/MANIFEST.schema.json")))
    for c in m["checks"]:
        ev = os.path.join(VERIF, c["evidence_file"])
        if os.path.exists(ev):
            jsonschema.validate(json.load(open(ev)), json.load(open("/root/.vp/EVIDENCE.schema.json")))
            print("evidence ok", c["property_id"])
    print("manifest ok: %d checks, %d not applicable" % (len(m["checks"]), len(m["not_applicable"])))
