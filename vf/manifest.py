"""Generates /verif/MANIFEST.json from the table below (dev tool; run by hand after editing)."""
import json
import os

VERIF = os.path.dirname(os.path.dirname(os.path.abspath(__file__)))

CLAIMED = {
    "C05": dict(
        category="translation_validation",
        text="Every control-flow skeleton of a bounded-exhaustive family is converted by the real converter and then exec(source) and eval(converted) are co-executed symbolically: CrossHair/z3 decide, for every schedule of condition outcomes (<= 5/6) and every iterable length (0..2), that both produce the same trace of statement markers, condition evaluations, iter()/next() calls and the same return value. Bounded: the program dimension is an enumeration, the data dimension is decided by the solver.",
        design_ref="DESIGN.md section 4, C05",
        note="Trusted: CPython (exec/eval), CrossHair 0.0.110 + z3 (path exploration is exhaustive only when it says 'Confirmed over all paths'), the harness helpers mark/cond/It/log. Bounds: skeletons <= 4 nodes exhaustive (thorough) / 5 nodes sampled, depth <= 3, schedule <= 6, <= 2 items per iterable.",
        technique="symbolic co-execution of source and converted text under CrossHair (z3), one PEP-316 condition per (skeleton, configuration)",
    ),
}

CLAIMED["C13"] = dict(
    category="translation_validation",
    text="Destructuring patterns (depth <= 3, star at every position) x source kinds, subscript/slice stores with symbolic bounds, and the matrix 13 operators x target kind x operand kind x placement are converted by the real converter; exec(source) and eval(converted) are co-executed under CrossHair with symbolic source length/elements/operands and the logged target values, alias identity, dunder-call order and container load/store counts must coincide.",
    design_ref="DESIGN.md section 4, C13",
    note="Trusted: CPython, CrossHair+z3, helper classes Box/UV injected on both sides. Bounds: source length min..min+3, patterns <= 6 leaves, slice bounds -3..3, concrete operands for float/bitwise operators (CrossHair inconclusive on those).",
    technique="symbolic co-execution of source and converted text under CrossHair (z3)",
)
CLAIMED["C07"] = dict(
    category="translation_validation",
    text="Statement templates in which every subexpression is a logging probe are converted by the real converter and co-executed symbolically with the source: the ordered probe log, container load/store events and logged values must coincide for every symbolic value that steers control (indices, truthiness).",
    design_ref="DESIGN.md section 4, C07",
    note="Trusted: CPython, CrossHair+z3, helper probe/Box injected on both sides. Bound: the template catalogue of vf/families/c07.py (exhaustive over statement forms and the 13 operators, not over expression shapes).",
    technique="symbolic co-execution with probe-instrumented statement templates under CrossHair (z3)",
)

CLAIMED["C01"] = dict(
    category="translation_validation",
    text="The 16 repository scripts, every feature of the catalogue alone, every ordered pair in sequence and every nested pair are converted by the real converter under the option combinations; exec(source) and eval(converted) are co-executed under CrossHair with symbolic ints a, b and a symbolic short string s; recorded print events and all final user globals must coincide, only __ol_* names / itertools / importlib may be added.",
    design_ref="DESIGN.md section 4, C01",
    note="Trusted: CPython, CrossHair+z3, the recording print stand-in (real print + stdout text on replay). Bounds: catalogue of vf/families/c01.py (2255 programs; quick tier: scripts + 41 singles + 170 seed-rotated pairs), strings <= 2 chars, small ranges for features that force realisation (f-string formatting, dict keys). Host = runtime = 3.12 (other interpreters: C15).",
    technique="symbolic co-execution of source and converted text under CrossHair (z3)",
)
CLAIMED["C11"] = dict(
    category="translation_validation",
    text="For every parameter-list shape (<= 2 parameters per kind, every legal default mask; 756 shapes) the def is converted by the real converter and a symbolic call battery (number of positionals, keyword subset incl. an unknown name, direct/star call, symbolic default values) is applied to the function objects of exec(source) and eval(converted): both must return the same bound values or both raise TypeError.",
    design_ref="DESIGN.md section 4, C11",
    note="Trusted: CPython's argument binding (both callables are real functions), CrossHair+z3. Bounds: quick = all shapes with <= 2 parameters + 170 seed-rotated shapes, <= 3 positionals, keyword subsets none/singles/two pairs; thorough = all 756 shapes, <= 5 positionals, all keyword subsets up to 96. Annotations are metadata.",
    technique="symbolic call-shape battery over source and converted function objects under CrossHair (z3)",
)
CLAIMED["C12"] = dict(
    category="translation_validation",
    text="Class skeletons (header: bases x metaclass x class keyword x decorators x placement; members: 26 kinds incl. static/class methods, property, nested class, lambdas, comprehensions, body control flow, zero/two-argument super, __init_subclass__) are converted by the real converter and co-executed with the source under CrossHair with symbolic attribute values/arguments: canonical vars(cls), MRO, metaclass and every member called on an instance and a subclass must coincide.",
    design_ref="DESIGN.md section 4, C12",
    note="Trusted: CPython, CrossHair+z3 (contract enforcement switched off for the programs under test, see DESIGN 2.3). Bounds: 541 skeletons (every legal header with 3 rotating members, every member alone, every member pair with the default header); metadata (__doc__, __qualname__, __module__, implicit staticmethod wrapper of __new__) not compared.",
    technique="symbolic co-execution of source and converted text under CrossHair (z3)",
)

NOT_YET = {}

NOT_APPLICABLE = {
    "C17": "thresholds of C-stack/recursion limits at thousands of statements: program size cannot be made symbolic (ast.parse/symtable need concrete text) and the only deciding step would be concrete runs at growing N, a different technique; see DESIGN.md section 7",
}


def build():
    props = [json.loads(l)["id"] for l in open(os.path.join(VERIF, "properties.jsonl"))]
    checks = []
    na = []
    for p in props:
        if p in CLAIMED:
            c = CLAIMED[p]
            checks.append(
                {
                    "property_id": p,
                    "quick_cmd": "./check %s --tier quick" % p,
                    "thorough_cmd": "./check %s --tier thorough" % p,
                    "evidence_file": "evidence/%s.json" % p,
                    "replay_cmd_template": "./check %s --replay {path}" % p,
                    "engine": c.get("engine", "crosshair+z3"),
                    "level_claimed": {"category": c["category"], "text": c["text"], "design_ref": c["design_ref"]},
                    "level_note": c["note"],
                    "technique": c["technique"],
                }
            )
        elif p in NOT_APPLICABLE:
            na.append({"property_id": p, "reason": NOT_APPLICABLE[p]})
        else:
            na.append({"property_id": p, "reason": NOT_YET.get(p, "check not built yet in this session (planned, see DESIGN.md section 8); not claimed until its check runs clean")})
    m = {
        "version": 1,
        "setup_cmd": "/venv/bin/python vf/boot.py",
        "hooks": {
            "guard": "ONELINER_PY_VERIF",
            "enable": "no source hooks are needed: the checks import /repo's working tree directly (ONELINER_PY_VERIF=1 is exported by ./check but nothing in /repo reads it)",
            "baseline_off_cmd": "cd /repo && /venv/bin/python -m pytest -ra -q -p no:cacheprovider --timeout=900 --continue-on-collection-errors",
            "source_commits": [],
            "add_only": True,
        },
        "engines": [
            {
                "name": "crosshair+z3",
                "path": "vf/chrun.py",
                "serves_properties": sorted(CLAIMED),
                "kind_free_text": "CrossHair 0.0.110 symbolic execution of the real Python objects (z3 decides every branch); verdict per PEP-316 condition; harness files regenerated from /repo on every run",
            }
        ],
        "checks": checks,
        "not_applicable": na,
        "notes": "Known findings: known_findings.json (static, never written by checks). Design: DESIGN.md.",
    }
    with open(os.path.join(VERIF, "MANIFEST.json"), "w") as f:
        json.dump(m, f, indent=1)
    return m


if __name__ == "__main__":
    m = build()
    import jsonschema

    jsonschema.validate(m, json.load(open("/root/.vp/MANIFEST.schema.json")))
    for c in m["checks"]:
        ev = os.path.join(VERIF, c["evidence_file"])
        if os.path.exists(ev):
            jsonschema.validate(json.load(open(ev)), json.load(open("/root/.vp/EVIDENCE.schema.json")))
            print("evidence ok", c["property_id"])
    print("manifest ok: %d checks, %d not applicable" % (len(m["checks"]), len(m["not_applicable"])))
