"""Runs under a RUNTIME interpreter (3.8 .. 3.13, stdlib only): for every text says whether it
compiles as one expression ('eval') / as a module ('exec').
usage: python rtparse.py IN.json OUT.json   (IN: {"eval": [texts], "exec": [texts]})"""
import json
import sys
import warnings


def main():
    warnings.simplefilter("ignore")
    with open(sys.argv[1]) as f:
        job = json.load(f)
    out = {"runtime": list(sys.version_info[:3]), "eval": [], "exec": []}
    for mode in ("eval", "exec"):
        for t in job.get(mode, []):
            if t is None:
                out[mode].append(None)
                continue
            try:
                compile(t, "<t>", mode)
                out[mode].append(True)
            except (SyntaxError, ValueError):
                out[mode].append(False)
            except RecursionError:
                out[mode].append(None)
    with open(sys.argv[2], "w") as f:
        json.dump(out, f)


if __name__ == "__main__":
    main()
