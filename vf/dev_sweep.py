"""DEV TOOL: concrete sweep (conversion + pre-screen only, no CrossHair) of a co-execution family,
to size the set of failing templates.  usage: python -m vf.dev_sweep C06 [thorough|quick]"""
import collections
import importlib
import re
import sys

from . import common, sce


def main(argv):
    prop = argv[1].upper()
    tier = argv[2] if len(argv) > 2 else "thorough"
    mod = importlib.import_module("vf.checks.%s" % prop.lower())
    tpls, note = mod.build(tier, 0)
    rep = common.Report(prop, tier, "translation_validation")
    known = common.Known(prop)
    with common.Workdir("sweep") as wd:
        d = sce.Driver(rep, known, wd, tier)
        obs = d.prepare(tpls)
        d.prescreen(obs, tpls)
    print(note)
    print({k: v for k, v in d.stats.items() if v})
    print("violations:", len(rep.violations), "masked:", d.stats["masked"])


if __name__ == "__main__":
    main(sys.argv)
