#!/bin/sh
# dev helper: run every registered thorough command sequentially, print result line + wall time
# usage: run_all_thorough.sh [ID ...]   (default: all, cheapest first)
ids="$@"; [ -z "$ids" ] && ids="C03 C07 C12 C15 C16 C01 C02 C13 C14 C08 C09 C10 C06 C11 C05 C04"
for p in $ids; do
  s=$(date +%s); ./check $p --tier thorough > thorough_$p.log 2>&1; rc=$?; e=$(date +%s)
  echo "$p rc=$rc $((e-s))s $(grep -c '^VIOLATION' thorough_$p.log) violations; $(tail -1 thorough_$p.log)"
done
