#!/bin/sh
# dev helper: run every registered thorough command sequentially, print result line + wall time
for p in C03 C07 C08 C12 C14 C15 C09 C13 C01 C16 C11 C02 C06 C05 C10 C04; do
  s=$(date +%s); ./check $p --tier thorough > thorough_$p.log 2>&1; rc=$?; e=$(date +%s)
  echo "$p rc=$rc $((e-s))s $(grep -c '^VIOLATION' thorough_$p.log) violations; $(tail -1 thorough_$p.log)"
done
