#!/bin/sh
# dev helper: run every registered quick command sequentially, print result line + wall time
cd /verif
for p in C01 C02 C03 C04 C05 C06 C07 C08 C09 C10 C11 C12 C13 C14 C15 C16; do
  s=$(date +%s); ./check $p --tier quick > /tmp/q_$p.log 2>&1; rc=$?; e=$(date +%s)
  echo "$p rc=$rc $((e-s))s $(grep -c '^VIOLATION' /tmp/q_$p.log) violations; $(tail -1 /tmp/q_$p.log)"
done
